#!/bin/bash
# runs every claimed check of MANIFEST.json (tier $1, default quick), a few at a time; prints one status line per check
TIER=${1:-quick}; cd "$(dirname "$0")/.."
IDS=$(python3 -c "import json; print(' '.join(c['property_id'] for c in json.load(open('MANIFEST.json'))['checks']))")
mkdir -p build/logs
run() { VERIF_NPROC=${VERIF_NPROC:-6} ./check $1 --tier $TIER > build/logs/$1.$TIER.log 2>&1; echo "$1 rc=$? $(tail -1 build/logs/$1.$TIER.log)"; }
export -f run; export TIER
# the schedule-level properties share one cached exploration: run one of them first, then the rest two at a time
run C10
echo $IDS | tr ' ' '\n' | grep -v '^C10$' | xargs -P 2 -I{} bash -c 'run {}'
