#!/bin/bash
# usage: confirm_seed.sh <worktree> <demo test filter or empty>
# (a) suite passes with mutant, (b) demo fails with mutant, (c) demo passes without mutant
set -u
WT=$1; FILTER=${2:-}
export CARGO_TARGET_DIR=$WT/target CARGO_NET_OFFLINE=true
cd $WT || exit 9
git checkout -q -- . ; git clean -fdq -e MUTANT -e target
git apply MUTANT/patch.diff || { echo "patch does not apply"; exit 9; }
A=$(cargo test --workspace --no-fail-fast --offline 2>&1 | grep -E "^test result" | awk '{p+=$4; f+=$6} END {print p" passed "f" failed"}')
echo "(a) suite with mutant: $A"
git apply MUTANT/demo.diff || { echo "demo does not apply"; exit 9; }
B=$(cargo test --workspace --no-fail-fast --offline $FILTER 2>&1 | grep -E "^test result" | awk '{p+=$4; f+=$6} END {print p" passed "f" failed"}')
echo "(b) suite+demo with mutant: $B"
git checkout -q -- . ; git clean -fdq -e MUTANT -e target
git apply MUTANT/demo.diff
C=$(cargo test --workspace --no-fail-fast --offline $FILTER 2>&1 | grep -E "^test result" | awk '{p+=$4; f+=$6} END {print p" passed "f" failed"}')
echo "(c) suite+demo without mutant: $C"
git checkout -q -- . ; git clean -fdq -e MUTANT -e target
