#!/usr/bin/env python3
"""Which functions of the anchored source files did NO check ever execute symbolically?

Reads `functions_encoded` of every evidence file and the MIR dumps cached under build/ (regenerated from /repo by the
checks), and lists, per source file, the functions that occur in the MIR but in no evidence.  Derived impls (Debug,
Clone, serde, Display ...) and test modules are left out.  A gap finder for the author, not a check."""
import json, glob, os, re, sys
sys.path.insert(0, os.path.join(os.path.dirname(__file__), '..'))
from mirsym import build
from mirsym.core import load_mir

def main():
    used = set()
    for f in glob.glob(os.path.join(build.VERIF, 'evidence', 'C*.json')):
        used |= set(json.load(open(f))['coverage'].get('functions_encoded', []))
    files = {}
    for crate in ('model', 'solution', 'solver', 'server', 'internal'):
        try: path = build.mir(crate, 'on')
        except Exception as e: print('no MIR for', crate, e); continue
        fns = {}; load_mir(path, fns)
        for name, v in fns.items():
            fn = v[0]; src = getattr(fn, 'src', None) or ''
            m = re.search(r'(\w+/src/[\w/]+\.rs)', name) or re.search(r'(\w+/src/[\w/]+\.rs)', src)
            key = m.group(1) if m else crate
            if re.search(r'::(fmt|clone|serialize|deserialize|expecting|visit_\w+|eq|ne|partial_cmp|cmp|hash|default)$', name) and '<impl at' in name: continue
            if name.startswith('const ') or '::tests::' in name or 'test_utilities' in name or '{closure' in name or 'promoted[' in name: continue
            files.setdefault((crate, key), []).append((name, name in used))
    tot = cov = 0
    for (crate, key), lst in sorted(files.items()):
        miss = sorted(n for n, u in lst if not u)
        tot += len(lst); cov += len(lst) - len(miss)
        print('%-10s %-60s %3d/%3d executed' % (crate, key, len(lst) - len(miss), len(lst)))
        for n in miss: print('      - ' + n[:150])
    print('total: %d of %d non-derived functions executed symbolically by at least one check' % (cov, tot))
if __name__ == '__main__': main()
