#!/usr/bin/env python3
"""regenerates MANIFEST.json from the table below"""
import json, os
V = os.path.dirname(os.path.dirname(os.path.abspath(__file__)))
props = [json.loads(l)['id'] for l in open(os.path.join(V, 'properties.jsonl'))]
TECH = 'symbolic execution of rustc MIR (mirsym) + z3 (integers with exact wrap-around), counterexamples replayed natively'
NOTE = 'trusted: rustc MIR pretty-printer, mirsym MIR semantics and library models (differentially validated against the native build), z3; bounds and assumptions are in the evidence file'
SCHED = ' Bounded scripts of real public schedule modifications from Schedule::empty (menu of valid arguments computed from the actual state), all instance attributes symbolic; the six schedule-level properties share one exploration whose result is cached under a hash of /repo\'s model+solution sources and of the machinery (a changed tree is re-explored).'
CLAIMED = {
 'C10': ('bounded: after every script within the bound every stored tour is a valid depot..depot path of own-type trips, formation(node) = vehicles whose tour contains it (no duplicates), formation/track/depot limits hold (symbolic limits), listings are sorted and match the tours, every real vehicle is in exactly one rotation cycle with exact counters.' + SCHED, 'DESIGN.md section 3, C10'),
 'C13': ('bounded: per-operation effect and frame conditions (provider loses exactly the moved nodes, receiver gains them / only conflict-free ones, displaced trips handed back, emptied vehicle disappears, depot-only operations change no activity, other vehicles, other formations and the input schedule untouched) on every script within the bound.' + SCHED, 'DESIGN.md section 3, C13'),
 'C02': ('bounded: formation limit = min of present limits (C17 job), and on every schedule reachable by the scripts no formation exceeds min(type limit, segment limit), no slot exceeds its tracks, no real depot exceeds total or per-type capacity, unlisted types never start there; flow bounds of the start solution are outside (C14/C07 not claimed).' + SCHED, 'DESIGN.md section 3, C02'),
 'C05': ('bounded: after reassign_end_depots_consistent_with_transitions on every schedule reachable by the scripts, every vehicle ends in the depot where its successor in the stored cycle starts, activities are unchanged, and starts/ends balance per (depot, type); that the stored cycles are the optimiser\'s is C16, that they partition the vehicles is C15/C10.' + SCHED, 'DESIGN.md section 3, C05'),
 'C01': ('decomposed: can_reach = documented rule (C17), tour constructors and edits only return valid tours (C12), and on every schedule reachable by the scripts every itinerary is depot..depot, pairwise connectable by the reference rule and type-compatible; the end-to-end solve run is outside.' + SCHED, 'DESIGN.md section 3, C01'),
 'C16': ('wiring: server::solve_instance and internal::run executed symbolically with every stage an uninterpreted function; the schedule handed to the JSON writer equals, for every interpretation of the stages (EUF validity, z3), reassign_end_depots(set_transitions(LS(improve_depots(MCF)), optimised transitions)) in both branches, and the reported objective value is evaluated on exactly that schedule. A violation is confirmed natively by comparing the server answer with the reference composition on the repository instances', 'DESIGN.md section 3, C16'),
 'C15': ('bounded: every script of real rotation-cycle operations (add to own cycle, remove, move, add at the end, update, 3-opt + replace_cycle) up to the stated length from the empty transition, on tours built by the real Tour::new with symbolic attributes, keeps the cycles a partition of the vehicles, the lookup and the empty-cycle list in step with the cycles, and every counter and both totals equal to recomputation; Transition::new_fast likewise. The accept-if-better rule of the optimisation is rapid_solve code (trusted, outside)', 'DESIGN.md section 3, C15'),
 'C06': ('kernel obligations only: the 3-opt neighbourhood index ranges neither panic (overflow-checked MIR) nor wrap around (release MIR) for every cycle length within the bound and enumerate exactly the triples i<j<k; the overflow depot can host every vehicle the covering circulation needs (feasibility precondition of network_simplex). Termination of the registry-crate loops is trusted', 'DESIGN.md section 3, C06'),
 'C12': ('bounded: for all attribute values (times incl. ties and zero turnaround, locations, asymmetric dead-head matrix, shunting, forbid flag) and all tour/path shapes within the bound, Tour::insert_path / remove / sub_path / check_removable / Tour::new of the real MIR agree with the prefix-path-suffix reference semantics; counterexamples are replayed natively', 'DESIGN.md section 3, C12'),
 'C09': ('bounded: schedule level - costs, unserved passengers, maintenance violation, depot spawn sets and every stored tour\'s cached figures equal recomputation after every script within the bound (shared exploration, see C10); tour level - after Tour::new, insert_path, remove, replace_start/end_depot every cached figure (useful duration, service distance, dead-head distance incl. Infinity, costs, visits-maintenance) equals recomputation from the node list by an independent reference model, for all attribute values and all shapes within the bound', 'DESIGN.md section 3, C09'),
 'C17': ('bounded: for all attribute values (times incl. ties, locations, dead-head matrix, shunting, limits present/absent, capacities) on shapes with <= 3 trips + 1 slot + 2 depots, the loaded network equals the reference construction, can_reach equals the documented rule for every ordered node pair, predecessors/successors are exactly the connectable sets, the overflow depot can host every vehicle', 'DESIGN.md section 3, C17'),
}
NA = {
 'C18': 'tokio/axum task scheduling, sockets and panic isolation across concurrent requests cannot be encoded by a sequential MIR symbolic executor or by Kani (no concurrency, no I/O); see DESIGN.md section 4',
}
checks = []; na = []
for p in props:
    if p in CLAIMED:
        text, ref = CLAIMED[p]
        checks.append(dict(property_id=p, quick_cmd='./check %s --tier quick' % p, thorough_cmd='./check %s --tier thorough' % p,
                           evidence_file='/verif/evidence/%s.json' % p, replay_cmd_template='./check %s --replay {path}' % p, engine='mirsym',
                           level_claimed=dict(category='model_checking', text=text, design_ref=ref), level_note=NOTE, technique=TECH))
    else:
        na.append(dict(property_id=p, reason=NA.get(p, 'check not built yet in this session (planned, see DESIGN.md section 3)')))
m = dict(version=1, setup_cmd='python3-vt -m mirsym.setup',
         hooks=dict(guard='rssched_verif', enable='no source hooks: MIR exposes private items; the native replay driver adds accessor functions to a scratch copy under /verif/build, never to /repo',
                    baseline_off_cmd='cd /repo && cargo test --workspace --no-fail-fast --offline', source_commits=[], add_only=True),
         engines=[dict(name='mirsym', path='/verif/mirsym', serves_properties=sorted(CLAIMED), kind_free_text='MIR-level symbolic executor (Python) + z3; native replay driver in /verif/replay')],
         checks=checks, not_applicable=na,
         notes='exit 2 of a check = inconclusive (unsupported construct, budget, solver unknown, engine disagreement); never folded into 0')
json.dump(m, open(os.path.join(V, 'MANIFEST.json'), 'w'), indent=1)
print('claimed', sorted(CLAIMED), 'not applicable', [x['property_id'] for x in na])
