// Native replay driver: runs the REAL compiled code of a scratch copy of /repo on a concrete scenario
// (instance JSON in the README's input format + a script of operations) and prints one JSON
// observation per operation.  Used to confirm every solver counterexample before it is reported and
// to validate the MIR executor differentially.
use model::base_types::{DepotIdx, Distance, NodeIdx, VehicleIdx, VehicleTypeIdx};
use model::json_serialisation::load_rolling_stock_problem_instance_from_json;
use model::network::Network;
use serde_json::{json, Value};
use solution::path::Path;
use solution::segment::Segment;
use solution::tour::Tour;
use solution::transition::transition_cycle::TransitionCycle;
use solution::transition::Transition;
use solution::Schedule;
use std::collections::HashMap;
use std::panic::{catch_unwind, AssertUnwindSafe};
use std::sync::Arc;

struct Ctx {
    nw: Arc<Network>,
    ids: HashMap<String, NodeIdx>,
    tours: HashMap<String, Tour>,
    paths: HashMap<String, Path>,
    scheds: HashMap<String, Schedule>,
    trans: HashMap<String, Transition>,
}

fn dist_json(d: Distance) -> Value {
    match d.in_meter() {
        Ok(m) => json!(m),
        Err(_) => json!("inf"),
    }
}
fn dur_json(d: rapid_time::Duration) -> Value {
    match d.in_sec() {
        Ok(s) => json!(s),
        Err(_) => json!("inf"),
    }
}

impl Ctx {
    fn node(&self, v: &Value) -> NodeIdx {
        let s = v.as_str().expect("node id string");
        *self.ids.get(s).unwrap_or_else(|| panic!("unknown node id {}", s))
    }
    fn nodes(&self, v: &Value) -> Vec<NodeIdx> {
        v.as_array().unwrap().iter().map(|x| self.node(x)).collect()
    }
    fn name(&self, n: NodeIdx) -> String {
        self.nw.node(n).id().to_string()
    }
    fn names<I: Iterator<Item = NodeIdx>>(&self, it: I) -> Vec<String> {
        it.map(|n| self.name(n)).collect()
    }
    fn vt(&self, v: &Value) -> VehicleTypeIdx {
        VehicleTypeIdx::from(v.as_u64().unwrap() as u16)
    }
    fn veh(&self, v: &Value) -> VehicleIdx {
        let s = v.as_str().unwrap();
        if let Some(r) = s.strip_prefix("veh_") {
            VehicleIdx::vehicle_from(r.parse().unwrap())
        } else if let Some(r) = s.strip_prefix("dummy_") {
            VehicleIdx::dummy_from(r.parse().unwrap())
        } else {
            panic!("vehicle id {}", s)
        }
    }
    fn tour_json(&self, t: &Tour) -> Value {
        json!({
            "nodes": self.names(t.all_nodes_iter()),
            "is_dummy": t.is_dummy(),
            "visits_maintenance": t.visits_maintenance(),
            "useful_duration": dur_json(t.useful_duration()),
            "service_distance": dist_json(t.service_distance()),
            "dead_head_distance": dist_json(t.dead_head_distance()),
            "costs": t.costs(),
            "maintenance_counter": t.maintenance_counter(),
        })
    }
    fn path_json(&self, p: &Path) -> Value {
        json!(self.names(p.iter()))
    }
    fn opt_path_json(&self, p: &Option<Path>) -> Value {
        match p {
            Some(p) => self.path_json(p),
            None => Value::Null,
        }
    }
    fn transition_json(&self, t: &Transition) -> Value {
        let cycles: Vec<Value> = t
            .cycles_iter()
            .map(|c| json!({"vehicles": c.iter().map(|v| v.to_string()).collect::<Vec<_>>(), "counter": c.maintenance_counter()}))
            .collect();
        json!({"cycles": cycles, "violation": t.maintenance_violation(), "counter": t.maintenance_counter()})
    }
    fn schedule_json(&self, s: &Schedule) -> Value {
        let nw = &self.nw;
        let mut vehicles = Vec::new();
        for v in s.vehicles_iter_all() {
            let t = s.tour_of(v).unwrap();
            vehicles.push(json!({"id": v.to_string(), "type": s.vehicle_type_of(v).unwrap().to_string(), "tour": self.tour_json(t)}));
        }
        let mut dummies = Vec::new();
        for d in s.dummy_iter() {
            let t = s.tour_of(d).unwrap();
            dummies.push(json!({"id": d.to_string(), "tour": self.tour_json(t)}));
        }
        let mut formations = serde_json::Map::new();
        for n in nw.coverable_nodes() {
            formations.insert(self.name(n), json!(s.train_formation_of(n).ids().iter().map(|v| v.to_string()).collect::<Vec<_>>()));
        }
        let mut depots = Vec::new();
        let mut dep_ids: Vec<DepotIdx> = nw.depots_iter().collect();
        dep_ids.sort();
        for d in dep_ids {
            for vt in nw.vehicle_types().iter() {
                depots.push(json!({"depot": nw.get_depot(d).id(), "type": vt.to_string(),
                    "spawned": s.number_of_vehicles_of_same_type_spawned_at(d, vt), "balance": s.depot_balance(d, vt)}));
            }
        }
        let mut transitions = serde_json::Map::new();
        for vt in nw.vehicle_types().iter() {
            transitions.insert(vt.to_string(), self.transition_json(s.next_day_transition_of(vt)));
        }
        let up = s.unserved_passengers();
        json!({"vehicles": vehicles, "dummies": dummies, "formations": formations, "depots": depots, "transitions": transitions,
               "costs": s.costs(), "unserved": [up.0, up.1], "maintenance_violation": s.maintenance_violation(),
               "depot_balance_violation": s.total_depot_balance_violation()})
    }
}

fn c_schedule_summary(s: &Schedule) -> Value {
    let nw = s.get_network();
    let mut m = serde_json::Map::new();
    for v in s.vehicles_iter_all() {
        let t = s.tour_of(v).unwrap();
        m.insert(v.to_string(), json!(t.all_non_depot_nodes_iter().map(|n| nw.node(n).id().to_string()).collect::<Vec<_>>()));
    }
    Value::Object(m)
}

fn run_op(c: &mut Ctx, op: &Value) -> Value {
    let kind = op["op"].as_str().unwrap();
    let nw = c.nw.clone();
    match kind {
        // ---------------------------------------------------------------- network
        "network" => {
            let mut nodes = Vec::new();
            for n in nw.all_nodes() {
                let nd = nw.node(n);
                let mut o = json!({"id": nd.id(), "idx": n.to_string(), "start": nd.start_time().as_iso(), "end": nd.end_time().as_iso(),
                    "start_location": nw.locations().get_id(nd.start_location()).unwrap(), "end_location": nw.locations().get_id(nd.end_location()).unwrap(),
                    "distance": dist_json(nd.travel_distance()), "duration": dur_json(nd.duration())});
                if nd.is_service() {
                    let vt = nw.vehicle_type_for(n);
                    o["type"] = json!(vt.to_string());
                    o["passengers"] = json!(nw.passengers_of(n));
                    o["seated"] = json!(nw.seated_passengers_of(n));
                    o["limit"] = json!(nw.maximal_formation_count_for(n));
                    o["required"] = json!(nw.number_of_vehicles_required_to_serve(vt, n));
                }
                if nd.is_maintenance() {
                    o["tracks"] = json!(nw.track_count_of_maintenance_slot(n));
                }
                if nd.is_depot() {
                    o["depot"] = json!(nw.get_depot(nw.get_depot_idx(n)).id());
                }
                nodes.push(o);
            }
            let mut depots = Vec::new();
            let mut dep_ids: Vec<DepotIdx> = nw.depots_iter().collect();
            dep_ids.sort();
            for d in dep_ids {
                let caps: Vec<Value> = nw.vehicle_types().iter().map(|vt| json!(nw.capacity_of(d, vt))).collect();
                depots.push(json!({"id": nw.get_depot(d).id(), "total": nw.total_capacity_of(d), "per_type": caps,
                    "location": nw.locations().get_id(nw.get_depot(d).location()).unwrap(), "overflow": d == nw.overflow_depot_idxs().0}));
            }
            let mut travel = serde_json::Map::new();
            for a in nw.locations().iter() {
                for b in nw.locations().iter() {
                    travel.insert(format!("{}>{}", nw.locations().get_id(a).unwrap(), nw.locations().get_id(b).unwrap()),
                        json!([dur_json(nw.locations().travel_time(a, b)), dist_json(nw.locations().distance(a, b))]));
                }
            }
            json!({"nodes": nodes, "depots": depots, "planning_days": dur_json(nw.planning_days()), "travel": travel})
        }
        "formation_limit" => json!(nw.maximal_formation_count_for(c.node(&op["node"]))),
        "required" => {
            let n = c.node(&op["node"]);
            json!(nw.number_of_vehicles_required_to_serve(nw.vehicle_type_for(n), n))
        }
        "can_reach" => json!(nw.can_reach(c.node(&op["a"]), c.node(&op["b"]))),
        "reach_matrix" => {
            let all: Vec<NodeIdx> = nw.all_nodes().collect();
            let mut m = serde_json::Map::new();
            for &a in &all {
                let row: Vec<String> = all.iter().filter(|&&b| nw.can_reach(a, b)).map(|&b| c.name(b)).collect();
                m.insert(c.name(a), json!(row));
            }
            Value::Object(m)
        }
        "predecessors" => {
            let mut v = c.names(nw.predecessors(c.vt(&op["vt"]), c.node(&op["node"])));
            v.sort();
            json!(v)
        }
        "successors" => {
            let mut v = c.names(nw.successors(c.vt(&op["vt"]), c.node(&op["node"])));
            v.sort();
            json!(v)
        }
        "min_duration" => dur_json(nw.minimal_duration_between_nodes(c.node(&op["a"]), c.node(&op["b"]))),
        // ---------------------------------------------------------------- tours
        "tour_new" => {
            let r = solution::verif_access::tour_new(c.nodes(&op["nodes"]), nw.clone());
            match r {
                Ok(t) => {
                    let j = c.tour_json(&t);
                    c.tours.insert(op["name"].as_str().unwrap().to_string(), t);
                    json!({"ok": j})
                }
                Err(e) => json!({"err": e}),
            }
        }
        "tour_new_dummy" => {
            let p = Path::new(c.nodes(&op["nodes"]), nw.clone());
            match p {
                Ok(Some(p)) => match solution::verif_access::tour_new_dummy(p, nw.clone()) {
                    Ok(t) => {
                        let j = c.tour_json(&t);
                        c.tours.insert(op["name"].as_str().unwrap().to_string(), t);
                        json!({"ok": j})
                    }
                    Err(e) => json!({"err": e}),
                },
                Ok(None) => json!({"err": "empty path"}),
                Err(e) => json!({"err": e}),
            }
        }
        "path_new" => match Path::new(c.nodes(&op["nodes"]), nw.clone()) {
            Ok(Some(p)) => {
                let j = c.path_json(&p);
                c.paths.insert(op["name"].as_str().unwrap().to_string(), p);
                json!({"ok": j})
            }
            Ok(None) => json!({"ok": Value::Null}),
            Err(e) => json!({"err": e}),
        },
        "tour_insert_path" => {
            let t = c.tours[op["tour"].as_str().unwrap()].clone();
            let p = c.paths[op["path"].as_str().unwrap()].clone();
            let (nt, removed) = t.insert_path(p);
            let j = json!({"tour": c.tour_json(&nt), "removed": c.opt_path_json(&removed)});
            if let Some(n) = op["name"].as_str() {
                c.tours.insert(n.to_string(), nt);
            }
            j
        }
        "formation_op" => {
            match solution::verif_access::formation_op(op["n"].as_u64().unwrap() as usize, op["what"].as_str().unwrap(), op["i"].as_u64().unwrap_or(0) as usize, nw.clone()) {
                Ok(v) => json!({"ok": v}),
                Err(e) => json!({"err": e}),
            }
        }
        "tour_remove" => {
            let t = c.tours[op["tour"].as_str().unwrap()].clone();
            let seg = Segment::new(c.node(&op["start"]), c.node(&op["end"]));
            match t.remove(seg) {
                Ok((nt, p)) => {
                    let j = json!({"ok": {"tour": nt.as_ref().map(|t| c.tour_json(t)), "removed": c.path_json(&p)}});
                    if let (Some(n), Some(nt)) = (op["name"].as_str(), nt) {
                        c.tours.insert(n.to_string(), nt);
                    }
                    j
                }
                Err(e) => json!({"err": e}),
            }
        }
        "tour_sub_path" => {
            let t = &c.tours[op["tour"].as_str().unwrap()];
            match t.sub_path(Segment::new(c.node(&op["start"]), c.node(&op["end"]))) {
                Ok(p) => json!({"ok": c.path_json(&p)}),
                Err(e) => json!({"err": e}),
            }
        }
        "tour_conflict" => {
            let t = &c.tours[op["tour"].as_str().unwrap()];
            json!(c.opt_path_json(&t.conflict(Segment::new(c.node(&op["start"]), c.node(&op["end"])))))
        }
        "tour_check_removable" => {
            let t = &c.tours[op["tour"].as_str().unwrap()];
            match t.check_removable(Segment::new(c.node(&op["start"]), c.node(&op["end"]))) {
                Ok(()) => json!({"ok": true}),
                Err(e) => json!({"err": e}),
            }
        }
        "tour_replace_start_depot" | "tour_replace_end_depot" => {
            let t = c.tours[op["tour"].as_str().unwrap()].clone();
            let d = c.node(&op["depot"]);
            let r = if kind == "tour_replace_start_depot" { t.replace_start_depot(d) } else { t.replace_end_depot(d) };
            match r {
                Ok(nt) => {
                    let j = json!({"ok": c.tour_json(&nt)});
                    if let Some(n) = op["name"].as_str() {
                        c.tours.insert(n.to_string(), nt);
                    }
                    j
                }
                Err(e) => json!({"err": e}),
            }
        }
        // ---------------------------------------------------------------- transitions
        "transition_new" => {
            // tours: {"veh_0": "T0", ...}
            let mut tours: im::HashMap<VehicleIdx, Tour> = im::HashMap::new();
            let mut vehicles = Vec::new();
            for v in op["vehicles"].as_array().unwrap() {
                let vi = c.veh(&v[0]);
                vehicles.push(vi);
                tours.insert(vi, c.tours[v[1].as_str().unwrap()].clone());
            }
            let t = Transition::new_fast(&vehicles, &tours, &nw);
            let j = c.transition_json(&t);
            c.trans.insert(op["name"].as_str().unwrap().to_string(), t);
            j
        }
        "transition_op" => {
            let mut tours: im::HashMap<VehicleIdx, Tour> = im::HashMap::new();
            for v in op["tours"].as_array().unwrap() {
                tours.insert(c.veh(&v[0]), c.tours[v[1].as_str().unwrap()].clone());
            }
            let t = c.trans[op["transition"].as_str().unwrap()].clone();
            let what = op["what"].as_str().unwrap();
            let nt = match what {
                "move_vehicle" => t.move_vehicle(c.veh(&op["vehicle"]), op["cycle"].as_u64().unwrap() as usize, &tours, &nw),
                "add_vehicle_to_own_cycle" => t.add_vehicle_to_own_cycle(c.veh(&op["vehicle"]), &tours[&c.veh(&op["vehicle"])], &nw),
                "remove_vehicle" => t.remove_vehicle(c.veh(&op["vehicle"]), &im::HashMap::new(), &tours, &nw),
                "update_vehicle" => t.update_vehicle(c.veh(&op["vehicle"]), &c.tours[op["new_tour"].as_str().unwrap()], &im::HashMap::new(), &tours, &nw),
                "add_vehicle_at_the_end" => t.add_vehicle_at_the_end(c.veh(&op["vehicle"]), op["cycle"].as_u64().unwrap() as usize, &im::HashMap::new(), &tours, &nw),
                "batch" => {
                    // as Schedule::update_transitions_and_violation_fast: shared old tours, growing map of updated tours
                    let mut cur = t.clone();
                    let mut updated: im::HashMap<VehicleIdx, &Tour> = im::HashMap::new();
                    for sub in op["subs"].as_array().unwrap() {
                        let v = c.veh(&sub["vehicle"]);
                        if sub["what"].as_str().unwrap() == "update_vehicle" {
                            let nt = &c.tours[sub["new_tour"].as_str().unwrap()];
                            cur = cur.update_vehicle(v, nt, &updated, &tours, &nw);
                            updated.insert(v, nt);
                        } else {
                            cur = cur.remove_vehicle(v, &updated, &tours, &nw);
                        }
                    }
                    cur
                }
                "three_opt" => {
                    let ci = op["cycle"].as_u64().unwrap() as usize;
                    let cyc = t.get_cycle(ci).clone();
                    let nc = cyc.three_opt(op["i"].as_u64().unwrap() as usize, op["j"].as_u64().unwrap() as usize, op["k"].as_u64().unwrap() as usize, &tours, &nw);
                    t.replace_cycle(ci, nc)
                }
                _ => panic!("unknown transition op {}", what),
            };
            let j = c.transition_json(&nt);
            if let Some(n) = op["name"].as_str() {
                c.trans.insert(n.to_string(), nt);
            }
            j
        }
        "tsp_neighbors" => {
            // number of 3-opt neighbours of a cycle (drives the real TransitionCycleNeighborhood)
            use rapid_solve::heuristics::common::Neighborhood;
            use solver::transition_cycle_tsp::transition_cycle_neighborhood::TransitionCycleNeighborhood;
            use solver::transition_cycle_tsp::TransitionCycleWithInfo;
            let mut tours: im::HashMap<VehicleIdx, Tour> = im::HashMap::new();
            let mut vs = Vec::new();
            for v in op["vehicles"].as_array().unwrap() {
                let vi = c.veh(&v[0]);
                vs.push(vi);
                if let Some(t) = v[1].as_str() {
                    tours.insert(vi, c.tours[t].clone());
                }
            }
            let nb = TransitionCycleNeighborhood::new(tours, nw.clone());
            let start = TransitionCycleWithInfo::new(TransitionCycle::new(vs, 0), "start".to_string());
            let n = nb.neighbors_of(&start).count();
            json!({"neighbors": n})
        }
        "cycle_new" => {
            let vs: Vec<VehicleIdx> = op["vehicles"].as_array().unwrap().iter().map(|v| c.veh(v)).collect();
            let cy = TransitionCycle::new(vs, op["counter"].as_i64().unwrap());
            json!({"vehicles": cy.iter().map(|v| v.to_string()).collect::<Vec<_>>(), "counter": cy.maintenance_counter()})
        }
        // ---------------------------------------------------------------- schedules
        "schedule_empty" => {
            let s = Schedule::empty(nw.clone());
            let j = c.schedule_json(&s);
            c.scheds.insert(op["name"].as_str().unwrap().to_string(), s);
            j
        }
        "neighbors" => {
            // the real local-search neighbourhood with the production parameters of build_local_search_solver
            use rapid_solve::heuristics::common::ParallelNeighborhood;
            use rayon::iter::ParallelIterator;
            use solver::local_search::neighborhood::swaps::SwapInfo;
            use solver::local_search::neighborhood::RSSchedParallelNeighborhood;
            use solver::local_search::ScheduleWithInfo;
            let s = c.scheds[op["schedule"].as_str().unwrap()].clone();
            let nb = RSSchedParallelNeighborhood::new(Some(rapid_time::Duration::new("3:00:00")), Some(rapid_time::Duration::new("0:10:00")), nw.clone());
            let swi = ScheduleWithInfo::new(s, SwapInfo::NoSwap, "base".to_string());
            let mut texts: Vec<String> = nb.neighbors_of(&swi).map(|x| x.get_print_text().to_string()).collect();
            texts.sort();
            json!({"candidates": texts.len(), "texts": texts})
        }
        "schedule_op" => {
            let s = c.scheds[op["schedule"].as_str().unwrap()].clone();
            let what = op["what"].as_str().unwrap();
            let r: Result<(Schedule, Value), String> = match what {
                "spawn_vehicle_for_path" => s.spawn_vehicle_for_path(c.vt(&op["vt"]), c.nodes(&op["nodes"])).map(|(s, v)| (s, json!(v.to_string()))),
                "spawn_vehicle_to_replace_dummy_tour" => s.spawn_vehicle_to_replace_dummy_tour(c.veh(&op["dummy"]), c.vt(&op["vt"])).map(|(s, v)| (s, json!(v.to_string()))),
                "replace_vehicle_by_dummy" => s.replace_vehicle_by_dummy(c.veh(&op["vehicle"])).map(|s| (s, Value::Null)),
                "add_path_to_vehicle_tour" => {
                    let p = Path::new(c.nodes(&op["nodes"]), nw.clone()).and_then(|p| p.ok_or("empty path".to_string()));
                    match p {
                        Ok(p) => s.add_path_to_vehicle_tour(c.veh(&op["vehicle"]), p).map(|(s, d)| { let j = c.opt_path_json(&d); (s, j) }),
                        Err(e) => Err(e),
                    }
                }
                "remove_segment" => s.remove_segment(Segment::new(c.node(&op["start"]), c.node(&op["end"])), c.veh(&op["vehicle"])).map(|s| (s, Value::Null)),
                "fit_reassign" => s.fit_reassign(Segment::new(c.node(&op["start"]), c.node(&op["end"])), c.veh(&op["provider"]), c.veh(&op["receiver"])).map(|s| (s, Value::Null)),
                "override_reassign" => s.override_reassign(Segment::new(c.node(&op["start"]), c.node(&op["end"])), c.veh(&op["provider"]), c.veh(&op["receiver"])).map(|(s, d)| (s, json!(d.map(|d| d.to_string())))),
                "swap_path_exchange" | "swap_spawn_maint" | "swap_hitch" | "swap_remove_single" => {
                    use solver::local_search::neighborhood::swaps as sw;
                    use solver::local_search::neighborhood::swaps::Swap;
                    let r = match what {
                        "swap_path_exchange" => sw::verif_path_exchange(Segment::new(c.node(&op["start"]), c.node(&op["end"])), c.veh(&op["provider"]), c.veh(&op["receiver"])).apply(&s),
                        "swap_spawn_maint" => sw::verif_spawn_vehicle_for_maintenance(c.node(&op["node"]), c.veh(&op["vehicle"])).apply(&s),
                        "swap_hitch" => sw::verif_add_trip_for_hitch_hiking(c.node(&op["node"]), c.veh(&op["vehicle"])).apply(&s),
                        _ => sw::verif_remove_single_node(c.node(&op["node"]), c.veh(&op["vehicle"])).apply(&s),
                    };
                    r.map(|s| (s, Value::Null))
                }
                "set_transitions_move" => {
                    let vt = c.vt(&op["vt"]);
                    let mut m: im::HashMap<VehicleTypeIdx, Transition> = im::HashMap::new();
                    for t in nw.vehicle_types().iter() {
                        let cur = s.next_day_transition_of(t).clone();
                        if t == vt {
                            m.insert(t, cur.move_vehicle(c.veh(&op["vehicle"]), op["cycle"].as_u64().unwrap() as usize, s.get_tours(), &nw));
                        } else {
                            m.insert(t, cur);
                        }
                    }
                    Ok((s.set_next_day_transitions(m), Value::Null))
                }
                "improve_depots" => Ok((s.improve_depots(None), Value::Null)),
                "reassign_end_depots_greedily" => s.reassign_end_depots_greedily().map(|s| (s, Value::Null)),
                "reassign_end_depots_consistent_with_transitions" => Ok((s.reassign_end_depots_consistent_with_transitions(), Value::Null)),
                "recompute_transitions_for" => Ok((s.recompute_transitions_for(None), Value::Null)),
                _ => panic!("unknown schedule op {}", what),
            };
            match r {
                Ok((ns, extra)) => {
                    let j = json!({"ok": c.schedule_json(&ns), "extra": extra, "input_after": c.schedule_json(&s)});
                    if let Some(n) = op["name"].as_str() {
                        c.scheds.insert(n.to_string(), ns);
                    }
                    j
                }
                Err(e) => json!({"err": e}),
            }
        }
        "schedule_verify" => {
            let s = &c.scheds[op["schedule"].as_str().unwrap()];
            s.verify_consistency();
            json!({"ok": true})
        }
        "schedule_to_json" => solution::json_serialisation::schedule_to_json(&c.scheds[op["schedule"].as_str().unwrap()]),
        "solve" => server::solve_instance(op["instance"].clone()),
        "solve_compare" => {
            // the server's answer next to the reference composition of the stages (mine, public API only):
            // MCF -> improve_depots -> local search (if maintenance) -> transition optimisation per type ->
            // set_next_day_transitions -> reassign end depots consistent with those transitions -> JSON
            use rapid_solve::heuristics::Solver;
            use solver::local_search::neighborhood::swaps::SwapInfo;
            use solver::local_search::ScheduleWithInfo;
            let inst = op["instance"].clone();
            let server_out = server::solve_instance(inst.clone());
            let network = load_rolling_stock_problem_instance_from_json(inst);
            let objective = Arc::new(solver::objective::build());
            let start = solver::min_cost_flow_solver::MinCostFlowSolver::initialize(network.clone()).solve();
            let start_info = ScheduleWithInfo::new(start.improve_depots(None), SwapInfo::NoSwap, "start".to_string());
            let mcf_json = c_schedule_summary(start_info.get_schedule());
            let solution = if network.maintenance_considered() {
                solver::local_search::build_local_search_solver(network.clone()).solve(start_info)
            } else {
                objective.evaluate(start_info.clone())
            };
            let schedule = solution.solution().get_schedule();
            let ls_json = c_schedule_summary(schedule);
            let tls = solver::transition_local_search::build_transition_local_search_solver(schedule, network.clone());
            let mut optimized: im::HashMap<VehicleTypeIdx, Transition> = im::HashMap::new();
            let mut opt_cycles = serde_json::Map::new();
            for vt in network.vehicle_types().iter() {
                let st = solver::transition_local_search::TransitionWithInfo::new(schedule.next_day_transition_of(vt).clone(), "init".to_string());
                let improved = tls.solve(st).unwrap().unwrap_transition();
                opt_cycles.insert(network.vehicle_types().get(vt).unwrap().id().clone(),
                    json!(improved.cycles_iter().map(|cy| cy.iter().map(|v| v.to_string()).collect::<Vec<_>>()).collect::<Vec<_>>()));
                optimized.insert(vt, improved);
            }
            let with_tr = schedule.set_next_day_transitions(optimized);
            let fin = with_tr.reassign_end_depots_consistent_with_transitions();
            let fin_info = ScheduleWithInfo::new(fin, SwapInfo::NoSwap, "final".to_string());
            let fin_eval = objective.evaluate(fin_info);
            json!({"server": server_out, "reference": {"schedule": solution::json_serialisation::schedule_to_json(fin_eval.solution().get_schedule()),
                   "objective": objective.objective_value_to_json(fin_eval.objective_value()), "optimiser_cycles": opt_cycles, "ls": ls_json, "mcf": mcf_json}})
        }
        _ => panic!("unknown op {}", kind),
    }
}

fn main() {
    let path = std::env::args().nth(1).expect("scenario file");
    let sc: Value = serde_json::from_str(&std::fs::read_to_string(path).unwrap()).unwrap();
    std::panic::set_hook(Box::new(|_| {}));
    let nw = match catch_unwind(AssertUnwindSafe(|| load_rolling_stock_problem_instance_from_json(sc["instance"].clone()))) {
        Ok(nw) => nw,
        Err(e) => {
            let msg = e.downcast_ref::<String>().cloned().or(e.downcast_ref::<&str>().map(|s| s.to_string())).unwrap_or_default();
            println!("OBS {}", json!([{"panic_in_load": msg}]));
            return;
        }
    };
    let mut ids = HashMap::new();
    for n in nw.all_nodes() {
        ids.insert(nw.node(n).id().to_string(), n);
    }
    let mut c = Ctx { nw, ids, tours: HashMap::new(), paths: HashMap::new(), scheds: HashMap::new(), trans: HashMap::new() };
    let mut out = Vec::new();
    for op in sc["ops"].as_array().unwrap() {
        let r = catch_unwind(AssertUnwindSafe(|| run_op(&mut c, op)));
        match r {
            Ok(v) => out.push(v),
            Err(e) => {
                let msg = e.downcast_ref::<String>().cloned().or(e.downcast_ref::<&str>().map(|s| s.to_string())).unwrap_or_default();
                out.push(json!({"panic": msg}));
            }
        }
    }
    println!("OBS {}", Value::Array(out));
}
