
// ---- injected by /verif into a scratch copy (not part of /repo)
impl Tour {
    pub fn verif_new(nodes: Vec<NodeIdx>, network: Arc<Network>) -> Result<Tour, String> {
        Tour::new(nodes, network)
    }
    pub fn verif_new_dummy(path: Path, network: Arc<Network>) -> Result<Tour, String> {
        Tour::new_dummy(path, network)
    }
}
