// Injected into a scratch copy of the `solution` crate by /verif (never into /repo):
// public accessors for crate-private constructors, used only by the native replay driver.
use crate::path::Path;
use crate::tour::Tour;
use model::base_types::NodeIdx;
use model::network::Network;
use std::sync::Arc;

pub fn tour_new(nodes: Vec<NodeIdx>, network: Arc<Network>) -> Result<Tour, String> {
    Tour::verif_new(nodes, network)
}
pub fn tour_new_dummy(path: Path, network: Arc<Network>) -> Result<Tour, String> {
    Tour::verif_new_dummy(path, network)
}

/// TrainFormation::replace / remove / add_at_tail (crate-private) on a formation of the vehicles 0..n; the new vehicle is 99
pub fn formation_op(n: usize, what: &str, i: usize, network: Arc<Network>) -> Result<Vec<String>, String> {
    use crate::train_formation::TrainFormation;
    use crate::vehicle::Vehicle;
    use model::base_types::VehicleIdx;
    let vt = network.vehicle_types().iter().next().unwrap();
    let mk = |k: usize| Vehicle::new(VehicleIdx::vehicle_from(k as u16), vt, network.vehicle_types());
    let mut tf = TrainFormation::empty();
    for k in 0..n {
        tf = tf.add_at_tail(mk(k));
    }
    let r = match what {
        "add_at_tail" => Ok(tf.add_at_tail(mk(99))),
        "remove" => tf.remove(VehicleIdx::vehicle_from(i as u16)),
        "replace" => tf.replace(VehicleIdx::vehicle_from(i as u16), mk(99)),
        _ => Err("unknown formation op".to_string()),
    };
    r.map(|t| t.ids().iter().map(|v| v.to_string()).collect())
}
