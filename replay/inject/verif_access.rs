// Injected into a scratch copy of the `solution` crate by /verif (never into /repo):
// public accessors for crate-private constructors, used only by the native replay driver.
use crate::path::Path;
use crate::tour::Tour;
use model::base_types::NodeIdx;
use model::network::Network;
use std::sync::Arc;

pub fn tour_new(nodes: Vec<NodeIdx>, network: Arc<Network>) -> Result<Tour, String> {
    Tour::verif_new(nodes, network)
}
pub fn tour_new_dummy(path: Path, network: Arc<Network>) -> Result<Tour, String> {
    Tour::verif_new_dummy(path, network)
}
