
// ---- injected by /verif into a scratch copy (not part of /repo): constructors of the crate-private swaps
pub fn verif_path_exchange(
    segment: solution::segment::Segment,
    provider: VehicleIdx,
    receiver: VehicleIdx,
) -> PathExchange {
    PathExchange::new(segment, provider, receiver)
}
pub fn verif_spawn_vehicle_for_maintenance(
    slot: model::base_types::NodeIdx,
    vehicle: VehicleIdx,
) -> SpawnVehicleForMaintenance {
    SpawnVehicleForMaintenance::new(slot, vehicle)
}
pub fn verif_add_trip_for_hitch_hiking(
    node: model::base_types::NodeIdx,
    vehicle: VehicleIdx,
) -> AddTripForHitchHiking {
    AddTripForHitchHiking::new(node, vehicle)
}
pub fn verif_remove_single_node(
    node: model::base_types::NodeIdx,
    vehicle: VehicleIdx,
) -> RemoveSingleNode {
    RemoveSingleNode::new(node, vehicle)
}
