"""setup: snapshot /repo, dump MIR for all crates, build the native replay driver (all offline)."""
import sys
from . import build, replay
def main():
    build.snapshot()
    for c in ('rapid_time', 'rapid_solve', 'model', 'solution', 'solver', 'server'):
        for m in ('on', 'off'): build.mir(c, m)
    replay.binary('dev')
    print('setup ok')
if __name__ == '__main__': main()
