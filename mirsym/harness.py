"""Check driver: runs the obligation jobs of a property in parallel, confirms counterexamples natively,
matches them against the committed known-findings file, writes the evidence file, sets the exit code.

exit 0  property held on everything explored (known findings are printed as KNOWN-FINDING lines)
exit 1  VIOLATION property=<id> replay=<path>   (confirmed natively, not a known finding)
exit 2  inconclusive (unsupported construct, budget, solver unknown, engine disagreement, vacuous obligation)
"""
import os, sys, json, time, importlib, traceback, multiprocessing, hashlib, random, pickle, tempfile, shutil, gc
import z3
from . import build
from .core import *
from . import models as M

VERIF = build.VERIF
_world = {}
def world(crates, mode='on'):
    """parsed MIR of the crates (cached per process)"""
    key = (tuple(crates), mode)
    if key not in _world:
        fns = {}
        for c in crates: load_mir(build.mir(c, mode), fns)
        scan_types(build.sources(crates)); scan_impls(fns, build.roots(crates))
        _world[key] = fns
    return _world[key]

# pure query functions of the model crate that are summarised (state merging) instead of forking their callers
MERGE_DEFAULT = ['>::can_reach', '>::dead_head_time_between', '>::dead_head_distance_between', '>::idle_time_between',
                 '>::minimal_duration_between_nodes', '>::distance', '>::travel_time']
CROSSCHECK = os.environ.get('VERIF_CROSSCHECK', '1' if os.environ.get('VERIF_TIER') == 'thorough' else '0') == '1'
CROSSCHECK_PER_JOB = int(os.environ.get('VERIF_CROSSCHECK_PER_JOB', '12'))
class JobCtx:
    """one symbolic-execution job inside a worker process"""
    def __init__(self, name, crates, mode='on', extra_models=(), **exkw):
        self.name = name; self.crates = crates; self.mode = mode
        self.fns = world(crates, mode)
        self.ex = Exec(self.fns, list(extra_models) + M.STD_MODELS, overflow_checks=(mode == 'on'), **exkw)
        self.ex.merge_patterns = list(MERGE_DEFAULT)
        self.solver = z3.Solver(); self.solver.set('timeout', 120_000)
        self.t0 = time.time()
        self.obligations = 0; self.discharged = 0; self.queries = 0; self.solver_s = 0.0
        self.cex = []; self.inconclusive = []; self.samples = []; self.reached = 0; self.panics = {}
        self.covers = set(); self.paths = 0; self.notes = []; self.validated = 0; self.witnesses = []; self.fam = {}; self.crosschecked = 0; self.cc_agree = 0; self.cc_unknown = 0
    COUNTERS = ('obligations', 'discharged', 'queries', 'solver_s', 'reached', 'paths', 'validated', 'crosschecked', 'cc_agree', 'cc_unknown')
    def _reset_counters(self):
        for k in self.COUNTERS: setattr(self, k, 0)
        self.cex = []; self.inconclusive = []; self.samples = []; self.panics = {}; self.covers = set(); self.notes = []; self.witnesses = []; self.fam = {}
        ex = self.ex
        for k in ex.stats: ex.stats[k] = 0
        ex.covers = set(); ex.used_fns = set(); ex.used_models = set(); ex.abstracted = 0
    def _partial(self):
        ex = self.ex
        d = dict((k, getattr(self, k)) for k in self.COUNTERS)
        d.update(fam=self.fam, witnesses=self.witnesses, cex=self.cex, inconclusive=self.inconclusive, samples=self.samples, panics=self.panics, covers=self.covers | ex.covers, notes=self.notes,
                 stats=dict(ex.stats), used_fns=ex.used_fns, used_models=ex.used_models, abstracted=ex.abstracted)
        return d
    def _merge(self, d):
        ex = self.ex
        for k in self.COUNTERS: setattr(self, k, getattr(self, k) + d[k])
        self.witnesses = (self.witnesses + d.get('witnesses', []))[:4]
        for k, (a, b) in d.get('fam', {}).items():
            x = self.fam.setdefault(k, [0, 0]); x[0] += a; x[1] += b
        self.cex += d['cex']; self.inconclusive += d['inconclusive']; self.samples = (self.samples + d['samples'])[:3]
        for k, v in d['panics'].items(): self.panics[k] = self.panics.get(k, 0) + v
        self.covers |= d['covers']; self.notes += d['notes']
        for k, v in d['stats'].items(): ex.stats[k] = ex.stats.get(k, 0) + v
        ex.used_fns |= d['used_fns']; ex.used_models |= d['used_models']; ex.abstracted += d['abstracted']
    def child_exit(self, extra_inconclusive=None):
        """called in a forked child when its path (and post-processing) is finished"""
        if extra_inconclusive: self.inconclusive.append(extra_inconclusive)
        try:
            with open(os.path.join(self._forkdir, '%d.pkl' % os.getpid()), 'wb') as f: pickle.dump(self._partial(), f)
        except BaseException as e:
            sys.stderr.write('[child %d] cannot report: %s: %s\n' % (os.getpid(), type(e).__name__, e)); sys.stderr.flush(); os._exit(4)
        os._exit(0)
    def explore(self, body, max_paths=200000):
        """yields (pc, result | Panic) for every feasible path.  Fork mode (default): each path's post-processing
        runs in the process that explored it; partial results are merged into this JobCtx in the root process."""
        if os.environ.get('VERIF_FORK', '1') != '1':
            paths = self.ex.explore(body, max_paths=max_paths)
            self.paths += len(paths)
            for it in paths: yield it
            return
        ex = self.ex
        os.makedirs(os.path.join(build.BUILD, 'forks'), exist_ok=True)
        self._forkdir = tempfile.mkdtemp(dir=os.path.join(build.BUILD, 'forks'))
        root = os.getpid(); ex.fork_mode = True; ex.is_child = False
        ex.child_hook = self._reset_counters
        ex.replay = []; ex.replay_pos = 0; ex.decisions = []; ex.pc = []; ex.stack = []
        PATH_RNG.clear()
        gc.collect(); gc.freeze()
        global _current_child_ctx
        _current_child_ctx = self
        item = None; err = None
        try:
            r = body(); item = (list(ex.pc), r)
        except PathAbort: pass
        except Panic as p: item = (list(ex.pc), p)
        except Unsupported as e:
            if os.getpid() != root: self.child_exit('%s: %s' % (self.name, str(e)[:600]))
            err = e
        if item is not None:
            self.paths += 1
            yield item
        if os.getpid() != root: self.child_exit()
        ex.fork_mode = False; _current_child_ctx = None
        gc.unfreeze()
        for fn in os.listdir(self._forkdir):
            with open(os.path.join(self._forkdir, fn), 'rb') as f: self._merge(pickle.load(f))
        shutil.rmtree(self._forkdir, ignore_errors=True)
        if ex.child_failures: self.inconclusive.append('%s: %d forked explorers died' % (self.name, ex.child_failures)); ex.child_failures = 0
        if err is not None: raise err
        if self.paths > max_paths: raise Unsupported('path budget (%d) exceeded' % max_paths)
    def sat(self, pc, *extra):
        """model of pc_global ∧ pc ∧ extra, or None"""
        s = self.solver; s.push(); s.add(*self.ex.pc_global); s.add(*pc); s.add(*extra)
        t = time.time(); r = s.check(); self.solver_s += time.time() - t; self.queries += 1
        m = s.model() if r == z3.sat else None
        if CROSSCHECK and r != z3.unknown and self.crosschecked < CROSSCHECK_PER_JOB and (self.queries % 7 == 1 or r == z3.sat):
            self._crosscheck(s, r)
        s.pop()
        if r == z3.unknown: raise Unsupported('closing query: solver returned unknown')
        return m
    def _crosscheck(self, s, r):
        """second solver: the closing query is exported as SMT-LIB2 and decided again by cvc5; a disagreement is inconclusive"""
        import subprocess
        d = os.path.join(build.BUILD, 'smt'); os.makedirs(d, exist_ok=True)
        f = os.path.join(d, 'q%d_%d.smt2' % (os.getpid(), self.queries))
        with open(f, 'w') as fh: fh.write('(set-logic ALL)\n' + s.to_smt2())
        try:
            out = subprocess.run(['cvc5', '--lang', 'smt2', '--tlimit', '30000', f], stdout=subprocess.PIPE, stderr=subprocess.PIPE, timeout=40).stdout.decode().strip().split('\n')[0]
        except Exception as e:
            out = 'error: %s' % e
        finally:
            try: os.unlink(f)
            except OSError: pass
        self.crosschecked += 1
        want = 'sat' if r == z3.sat else 'unsat'
        if out in ('sat', 'unsat'):
            if out != want: raise Unsupported('SOLVER-DISAGREEMENT: z3 says %s, cvc5 says %s on a closing query' % (want, out))
            self.cc_agree += 1
        else: self.cc_unknown += 1
    def prove(self, pc, formula, clause, mk_cex=None):
        """obligation: pc ⇒ formula.  Returns True if discharged; records a counterexample otherwise."""
        self.obligations += 1
        fam = self.fam.setdefault(clause.split(':')[0] if ':' in clause else '', [0, 0]); fam[0] += 1
        if formula is True: self.discharged += 1; fam[1] += 1; return True
        if isinstance(formula, bool): formula = z3.BoolVal(formula)
        f = z3.simplify(formula)
        if z3.is_true(f): self.discharged += 1; fam[1] += 1; return True
        m = self.sat(pc, z3.Not(f))
        if m is None: self.discharged += 1; fam[1] += 1; return True
        if mk_cex is not None:
            c = mk_cex(m)
            if c is not None:
                c.setdefault('clause', clause); c.setdefault('job', self.name); self.cex.append(c)
        else: self.cex.append(dict(clause=clause, job=self.name, signature=clause, what='obligation over a crate-private structure (no native observable): decided on the MIR, re-decided on the other MIR flavour before it is reported'))
        return False
    def panic(self, pc, p, clause='no-panic', mk_cex=None, allowed=None):
        """a path ended in a Rust panic under a satisfiable pc: violation unless `allowed(msg)`"""
        self.panics[p.msg] = self.panics.get(p.msg, 0) + 1
        if allowed and allowed(p.msg): return True
        return self.prove(pc, False, clause, mk_cex)
    def witness(self, pc, build_fn, limit=2):
        """translator validation: a satisfying (non-violating) assignment of this path, replayed natively by the
        driver and compared with the symbolic result under the same assignment"""
        if len(self.witnesses) >= limit: return
        m = self.sat(pc)
        if m is None: return
        w = build_fn(m)
        if w is not None: w['job'] = self.name; self.witnesses.append(w)
    def sample(self, s):
        if len(self.samples) < 3: self.samples.append(s)
    def result(self):
        ex = self.ex
        return dict(name=self.name, crates=self.crates, mode=self.mode, paths=self.paths, exec_queries=ex.stats['queries'], exec_solver_s=round(ex.stats['solver_s'], 2),
                    steps=ex.stats['steps'], calls=ex.stats['calls'], obligations=self.obligations, discharged=self.discharged,
                    closing_queries=self.queries, closing_solver_s=round(self.solver_s, 2), cex=self.cex, inconclusive=self.inconclusive,
                    samples=self.samples, reached=self.reached, panics=self.panics, covers=sorted(self.covers | ex.covers),
                    crosschecked=self.crosschecked, cc_agree=self.cc_agree, cc_unknown=self.cc_unknown, fam=self.fam, witnesses=self.witnesses, fns=sorted(ex.used_fns), models=sorted(ex.used_models), wall_s=round(time.time() - self.t0, 2), notes=self.notes,
                    abstracted_products=ex.abstracted, validated=self.validated)

_current_child_ctx = None
class JobCap(Exception): pass
def _run_job(spec):
    modname, func, kwargs, name = spec
    t0 = time.time(); root = os.getpid()
    cap = int(float(os.environ.get('VERIF_JOB_CAP_S', '0')))
    if cap:
        # per-job wall-clock cap (thorough tier): the job's forked explorers form one process group that is torn down when the cap
        # is reached; the job is then reported as NOT explored (never as held)
        import signal
        try: os.setpgrp()
        except OSError: pass
        def on_alarm(signum, frame):
            if os.getpid() != root: os._exit(5)
            signal.signal(signal.SIGTERM, signal.SIG_IGN)
            try: os.killpg(0, signal.SIGTERM)
            except OSError: pass
            raise JobCap()
        signal.signal(signal.SIGALRM, on_alarm); signal.alarm(cap)
    try:
        mod = importlib.import_module(modname)
        try:
            r = getattr(mod, func)(name=name, **kwargs)
        except JobCap:
            return dict(name=name, capped=True, wall_s=round(time.time() - t0, 2), cex=[], paths=0, obligations=0, discharged=0, allow_empty=True)
        finally:
            if cap:
                import signal as _s; _s.alarm(0)
        for c in r.get('cex', []): c.setdefault('job_func', func); c.setdefault('job_kwargs', kwargs)
        return r
    except BaseException as e:
        if os.getpid() != root:
            # a forked explorer must never return into the worker loop
            try:
                sys.stderr.write('[child %d] %s: %s\n%s\n' % (os.getpid(), type(e).__name__, str(e)[:300], traceback.format_exc()[-800:])); sys.stderr.flush()
                _current_child_ctx.child_exit('%s: %s in post-processing: %s' % (name, type(e).__name__, str(e)[:500]))
            finally: os._exit(3)
        if not isinstance(e, Exception): raise
        if isinstance(e, Unsupported):
            return dict(name=name, inconclusive=['%s: %s' % (name, str(e)[:600])], wall_s=round(time.time() - t0, 2), cex=[], paths=0, obligations=0, discharged=0)
        return dict(name=name, inconclusive=['%s: internal error %s: %s\n%s' % (name, type(e).__name__, str(e)[:400], traceback.format_exc()[-1500:])],
                    wall_s=round(time.time() - t0, 2), cex=[], paths=0, obligations=0, discharged=0)
def confirm_on_other_flavour(modname, func, kwargs, clause, name='confirm'):
    """for obligations about crate-private structures that the native build cannot show: decide the same obligation again on
    the MIR of the other arithmetic flavour (overflow checks off = what release builds compile) in this fresh process; the
    violation is reported only if that independent dump violates the same clause"""
    mod = importlib.import_module(modname)
    kw = dict(kwargs); kw['mode'] = 'off'
    for c, m in getattr(mod, 'MIR', []): build.mir(c, 'off')
    r = getattr(mod, func)(name=name, **kw)
    hit = [c for c in r.get('cex', []) if c.get('clause') == clause]
    return bool(hit), 'the overflow-checks-off MIR (release arithmetic) %s the same clause (%d paths, %d obligations)' % ('violates' if hit else 'does NOT violate', r.get('paths', 0), r.get('obligations', 0))

def load_known():
    p = os.path.join(VERIF, 'known_findings.json')
    return json.load(open(p)) if os.path.exists(p) else []

def match_known(prop, c, known):
    for k in known:
        if k.get('status') != 'known' or k['property'] != prop: continue
        if k['clause'] == c.get('clause') and k['signature'] == c.get('signature'): return k
    return None

def run_check(prop, tier, seed, only=None, nproc=None):
    t0 = time.time()
    mod = importlib.import_module('mirsym.obligations.' + prop)
    build.snapshot()
    # MIR dumps are produced once, before the workers fork
    for c, m in mod.MIR:
        build.mir(c, m)
    jobs = mod.jobs(tier, seed)
    if only: jobs = [j for j in jobs if only in j['name']]
    rnd = random.Random(seed); rnd.shuffle(jobs)
    specs = [('mirsym.obligations.' + prop, j['func'], j.get('kwargs', {}), j['name']) for j in jobs]
    if tier == 'thorough': os.environ.setdefault('VERIF_JOB_CAP_S', '1800')
    nproc = nproc or int(os.environ.get('VERIF_NPROC', '14'))
    results = []
    if nproc == 1 or len(specs) == 1:
        results = [_run_job(s) for s in specs]
    else:
        ctx = multiprocessing.get_context('fork')
        # time budget (thorough tier only, VERIF_BUDGET_S, default 2.5 h): jobs run in a seeded random order; when the budget is
        # used up the remaining jobs are NOT explored and are named in the evidence (outside_bounds) - they are never counted as held
        budget = float(os.environ.get('VERIF_BUDGET_S', '0' if tier == 'quick' else '9000'))
        with ctx.Pool(min(nproc, len(specs)), maxtasksperchild=1) as pool:
            for r in pool.imap_unordered(_run_job, specs):
                results.append(r)
                if budget and time.time() - t0 > budget and len(results) < len(specs):
                    import signal
                    for w in list(getattr(pool, '_pool', [])):          # each worker leads the process group of its job's forked explorers
                        try: os.killpg(w.pid, signal.SIGTERM)
                        except (OSError, AttributeError): pass
                    pool.terminate(); break
                if os.environ.get('VERIF_VERBOSE'): sys.stderr.write('[%s] job %-40s paths=%-6s obligations=%-6s cex=%d %s %.1fs\n' % (prop, r['name'], r.get('paths'), r.get('obligations'), len(r.get('cex', [])), 'INCONCLUSIVE' if r.get('inconclusive') else '', r.get('wall_s', 0)))
    done_names = set(r['name'] for r in results)
    skipped = [sp_[3] for sp_ in specs if sp_[3] not in done_names] + [r['name'] + ' (job time cap)' for r in results if r.get('capped')]
    results.sort(key=lambda r: r['name'])
    # ---- counterexamples: confirm natively, then match against known findings
    known = load_known()
    violations = []; known_hits = {}; disagreements = []; validated = 0
    os.makedirs(os.path.join(VERIF, 'evidence', 'replays'), exist_ok=True)
    if not only:
        import glob
        for old in glob.glob(os.path.join(VERIF, 'evidence', 'replays', prop + '-*.json')): os.unlink(old)
    seen_sig = {}
    for r in results:
        for c in r.get('cex', []):
            key = (c.get('clause'), c.get('signature'))
            seen_sig.setdefault(key, []).append(c)
    n = 0
    for key, cs in sorted(seen_sig.items(), key=lambda kv: str(kv[0])):
        # confirm up to 3 counterexamples per (clause, signature)
        confirmed = None; details = []
        for c in cs[:3]:
            try:
                okc, detail = mod.confirm(c)
            except Exception as e:
                okc, detail = False, 'replay failed: %s' % e
            details.append(detail)
            if okc: confirmed = c; break
        if confirmed is None:
            disagreements.append(dict(clause=key[0], signature=key[1], details=details, what=cs[0].get('what')))
            continue
        validated += 1
        k = match_known(prop, confirmed, known)
        if k:
            known_hits[(key[0], key[1])] = (k, confirmed, len(cs))
        else:
            n += 1
            path = os.path.join(VERIF, 'evidence', 'replays', '%s-%d.json' % (prop, n))
            json.dump(dict(property=prop, clause=key[0], signature=key[1], what=confirmed.get('what'), scenario=confirmed.get('scenario'),
                           expect=confirmed.get('expect'), native=details[-1], count=len(cs)), open(path, 'w'), indent=1)
            violations.append((key, path, confirmed))
    # ---- translator validation: satisfying assignments replayed natively must agree with the symbolic result
    wit = [w for r in results for w in r.get('witnesses', [])[:1]]
    rnd.shuffle(wit); nval = 0; mism = []
    if hasattr(mod, 'validate') and not only:
        for w in wit[:int(os.environ.get('VERIF_WITNESSES', '10' if tier == 'quick' else '60'))]:
            try: okw, detail = mod.validate(w)
            except Exception as e: okw, detail = False, 'replay failed: %s' % e
            if okw: nval += 1
            else: mism.append('%s: %s' % (w.get('job'), detail))
    validated += nval
    inconclusive = [m for r in results for m in r.get('inconclusive', [])]
    for x in mism: inconclusive.append('ENGINE-DISAGREEMENT (translator validation): symbolic result differs from the native run: ' + x[:500])
    # vacuity: every job must have reached its assertions on at least one feasible path
    for r in results:
        if not r.get('inconclusive') and r.get('obligations', 0) == 0 and not r.get('allow_empty'):
            inconclusive.append('%s: vacuous (no obligation reached)' % r['name'])
    required = set(getattr(mod, 'REQUIRED_COVERS', {}).get(tier, []))
    got = set(c for r in results for c in r.get('covers', []))
    if not only:
        for c in sorted(required - got): inconclusive.append('cover goal not reached: ' + c)
    for d in disagreements:
        inconclusive.append('ENGINE-DISAGREEMENT clause=%s signature=%s: solver counterexample does not reproduce natively (%s)' % (d['clause'], d['signature'], '; '.join(str(x) for x in d['details'])[:400]))
    # ---- evidence
    wall = time.time() - t0
    tot = lambda k: sum(int(r.get(k, 0) or 0) for r in results)
    samples = []
    for r in results:
        for s in r.get('samples', [])[:1]: samples.append(dict(job=r['name'], obligation=s))
    ev = dict(property_id=prop, tier=tier, seed=seed, level='model_checking', wall_s=round(wall, 2), violations=len(violations),
              coverage=dict(states=max(1, tot('paths')), transitions=max(1, tot('exec_queries') + tot('closing_queries')),
                            traces_validated_against_impl=validated + tot('validated'), samples=samples[:12] or [dict(note='no samples')],
                            obligations=tot('obligations'), discharged=tot('discharged'),
                            closing_queries_crosschecked_with_cvc5=tot('crosschecked'), cvc5_agreed=tot('cc_agree'), cvc5_unknown_or_timeout=tot('cc_unknown'),
                            solver_s=round(sum(float(r.get('exec_solver_s', 0) or 0) + float(r.get('closing_solver_s', 0) or 0) for r in results), 2),
                            symbolic_steps=tot('steps'), jobs=[dict((k, r.get(k)) for k in ('name', 'mode', 'paths', 'obligations', 'discharged', 'exec_queries', 'closing_queries', 'wall_s', 'panics', 'covers', 'notes', 'abstracted_products') if r.get(k) not in (None, [], {}, 0) or k == 'name') for r in results],
                            functions_encoded=sorted(set(f for r in results for f in r.get('fns', [])))[:400],
                            library_models=sorted(set(f for r in results for f in r.get('models', []))),
                            bounds=getattr(mod, 'BOUNDS', {}).get(tier, ''), outside_bounds=getattr(mod, 'OUTSIDE', '') + ('; NOT explored within the time budget of this run (%d of %d jobs): %s' % (len(skipped), len(specs), ', '.join(skipped)[:3000]) if skipped else ''),
                            known_findings=[dict(clause=k[0], signature=k[1], count=v[2]) for k, v in known_hits.items()],
                            inconclusive=inconclusive, exhaustive=False,
                            explanation='paths = feasible symbolic execution paths of the real MIR (states); queries = SMT queries discharged (transitions); every obligation is pc ⇒ assertion, decided by z3 over all attribute values within the bounds'),
              assumptions=getattr(mod, 'ASSUMPTIONS', []))
    os.makedirs(os.path.join(VERIF, 'evidence'), exist_ok=True)
    json.dump(ev, open(os.path.join(VERIF, 'evidence', prop + '.json'), 'w'), indent=1)
    # ---- verdict
    for (k, conf, cnt) in known_hits.values():
        print('KNOWN-FINDING: property=%s %s [%s / %s] (%d counterexample paths, confirmed natively)' % (prop, k['what'], k['clause'], k['signature'], cnt))
    for key, path, c in violations:
        print('VIOLATION property=%s replay=%s' % (prop, path))
        print('  clause=%s signature=%s: %s' % (key[0], key[1], c.get('what')))
    if skipped: print('BUDGET: %d of %d jobs were not explored within the time budget (listed in the evidence under outside_bounds)' % (len(skipped), len(specs)))
    for m in inconclusive: print('INCONCLUSIVE: ' + m)
    print('%s %s: jobs=%d paths=%d obligations=%d discharged=%d violations=%d known=%d inconclusive=%d wall=%.1fs' % (
        prop, tier, len(results), tot('paths'), tot('obligations'), tot('discharged'), len(violations), len(known_hits), len(inconclusive), wall))
    if violations: return 1
    if inconclusive: return 2
    return 0

def main(argv):
    import argparse
    ap = argparse.ArgumentParser()
    ap.add_argument('property'); ap.add_argument('--tier', default=os.environ.get('VERIF_TIER', 'quick'))
    ap.add_argument('--only', default=None); ap.add_argument('--nproc', type=int, default=None)
    ap.add_argument('--replay', default=None)
    a = ap.parse_args(argv)
    seed = int(os.environ.get('VERIF_SEED', '0'))
    if a.tier == 'thorough' and 'VERIF_CROSSCHECK' not in os.environ:
        global CROSSCHECK
        CROSSCHECK = True
    if a.replay:
        from . import replay
        d = json.load(open(a.replay)); build.snapshot()
        for prof in ('dev', 'release'):
            print(prof, json.dumps(replay.run(d['scenario'], prof))[:4000])
        print('expected:', json.dumps(d.get('expect'))[:2000]); return 0
    return run_check(a.property, a.tier, seed, a.only, a.nproc)
if __name__ == '__main__':
    sys.exit(main(sys.argv[1:]))
