"""Snapshot /repo's working tree and (re)generate the MIR dumps the checks execute.

Nothing is built inside /repo.  Everything lives under /verif/build (git-ignored):
  build/snap/           rsync of /repo (no target/, no .git/)
  build/mir/<crate>.<on|off>.mir   cached by a hash of the crate's sources (+ its dependencies' sources)
  build/target-mir/     cargo target dir of the nightly MIR builds
"""
import os, subprocess, hashlib, glob, sys, time, fcntl, json

VERIF = os.path.dirname(os.path.dirname(os.path.abspath(__file__)))
REPO = os.environ.get('VERIF_REPO', '/repo')
BUILD = os.path.join(VERIF, 'build')
SNAP = os.path.join(BUILD, 'snap')
MIRDIR = os.path.join(BUILD, 'mir')
ENV = dict(os.environ, CARGO_NET_OFFLINE='true', RUSTUP_TOOLCHAIN='nightly')
ENV.pop('RUSTFLAGS', None)

# crate -> repo-internal crates whose sources influence its MIR
DEPS = {'model': ['model'], 'solution': ['model', 'solution'], 'solver': ['model', 'solution', 'solver'],
        'server': ['model', 'solution', 'solver', 'server'], 'internal': ['model', 'solution', 'solver', 'internal'],
        'rapid_time': [], 'rapid_solve': []}

def registry_dir(prefix):
    c = sorted(glob.glob(os.path.expanduser('~/.cargo/registry/src/*/%s-*' % prefix)))
    c = [x for x in c if os.path.basename(x)[len(prefix) + 1:][:1].isdigit()]
    return c

def locked_version(crate):
    lock = open(os.path.join(SNAP, 'Cargo.lock')).read().split('[[package]]')
    for blk in lock:
        if 'name = "%s"' % crate in blk:
            for l in blk.split('\n'):
                if l.startswith('version'): return l.split('"')[1]
    return None

def registry_src(crate):
    v = locked_version(crate)
    for c in registry_dir(crate):
        if c.endswith('-' + v): return c
    raise RuntimeError('registry source of %s-%s not found' % (crate, v))

class Lock:
    def __init__(self, name): self.path = os.path.join(BUILD, name)
    def __enter__(self):
        os.makedirs(BUILD, exist_ok=True)
        self.f = open(self.path, 'w'); fcntl.flock(self.f, fcntl.LOCK_EX); return self
    def __exit__(self, *a): fcntl.flock(self.f, fcntl.LOCK_UN); self.f.close()

def snapshot():
    """rsync /repo -> build/snap (under a lock so that concurrent checks do not race)"""
    os.makedirs(SNAP, exist_ok=True)
    with Lock('.snap.lock'):
        subprocess.run(['rsync', '-a', '--delete', '--exclude', 'target', '--exclude', '.git', REPO + '/', SNAP + '/'], check=True)
    return SNAP

def src_hash(crates):
    h = hashlib.sha256()
    for c in crates:
        for p in sorted(glob.glob(os.path.join(SNAP, c, '**', '*'), recursive=True)):
            if os.path.isfile(p):
                h.update(p[len(SNAP):].encode()); h.update(open(p, 'rb').read())
    for p in ('Cargo.toml', 'Cargo.lock'):
        h.update(open(os.path.join(SNAP, p), 'rb').read())
    return h.hexdigest()[:16]

def mir(crate, mode='on'):
    """path of the MIR dump of `crate` (overflow checks `mode`), regenerated if the sources changed"""
    assert mode in ('on', 'off')
    os.makedirs(MIRDIR, exist_ok=True)
    out = os.path.join(MIRDIR, '%s.%s.mir' % (crate, mode)); stamp = out + '.hash'
    with Lock('.mir.%s.%s.lock' % (crate, mode)):
        h = src_hash(DEPS[crate]) + ':' + crate
        if os.path.exists(out) and os.path.exists(stamp) and open(stamp).read() == h and os.path.getsize(out) > 0:
            return out
        t0 = time.time()
        # touch the lib root so that cargo re-runs rustc (otherwise an up-to-date crate prints nothing)
        if DEPS[crate]:
            lib = os.path.join(SNAP, crate, 'src', 'lib.rs'); os.utime(lib, None)
        else:
            lib = os.path.join(registry_src(crate), 'src', 'lib.rs')
        tdir = os.path.join(BUILD, 'target-mir-%s' % mode)
        cmd = ['cargo', 'rustc', '--offline', '-p', crate, '--lib', '--target-dir', tdir, '--',
               '-Zunpretty=mir', '-C', 'debug-assertions=off', '-C', 'overflow-checks=%s' % mode]
        with Lock('.cargo.%s.lock' % mode):
            if not DEPS[crate]:
                # registry crate: force a rebuild of just this package
                subprocess.run(['cargo', 'clean', '--offline', '-p', crate, '--target-dir', tdir], cwd=SNAP, env=ENV,
                               stdout=subprocess.DEVNULL, stderr=subprocess.DEVNULL)
            r = subprocess.run(cmd, cwd=SNAP, env=ENV, stdout=subprocess.PIPE, stderr=subprocess.PIPE)
        if r.returncode != 0 or len(r.stdout) < 100:
            sys.stderr.write(r.stderr.decode()[-3000:])
            raise RuntimeError('MIR dump of %s failed (rc=%d, %d bytes)' % (crate, r.returncode, len(r.stdout)))
        with open(out, 'wb') as f: f.write(r.stdout)
        with open(stamp, 'w') as f: f.write(h)
        sys.stderr.write('[build] MIR %s.%s: %d KB in %.1fs\n' % (crate, mode, len(r.stdout) // 1024, time.time() - t0))
    return out

def sources(crates):
    out = []
    for c in crates:
        root = os.path.join(SNAP, c) if DEPS.get(c) else registry_src(c)
        out += glob.glob(os.path.join(root, 'src', '**', '*.rs'), recursive=True)
    return out

def roots(crates):
    return [SNAP] + [registry_src(c) for c in crates if not DEPS.get(c)]

if __name__ == '__main__':
    snapshot()
    for c in sys.argv[1:] or ['rapid_time', 'model', 'solution', 'solver', 'server', 'rapid_solve']:
        for m in ('on', 'off'): print(mir(c, m))
