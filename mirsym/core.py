"""mirsym core: parser for rustc's `-Zunpretty=mir` text and a forking symbolic executor over it.

Values are Python objects whose leaves are z3 Int/Bool terms; machine integers are mathematical
integers with exact two's-complement wrap (see `wrap`), decided by z3 (linear integer arithmetic).
Forking is by deterministic re-execution along a recorded decision vector.
"""
import re, os, sys, time
import z3

# ===================================================================== parsing
class Fn:
    def __init__(self, name, sig):
        self.name = name; self.sig = sig; self.params = []; self.locals = {}; self.blocks = {}; self.ret = None
        self.compiled = {}

def split_top(s, sep=','):
    out, depth, cur = [], 0, []
    i = 0; n = len(s); instr = False
    while i < n:
        c = s[i]
        if c == '"' and (i == 0 or s[i-1] != '\\'): instr = not instr
        if not instr:
            if c in '([{<': depth += 1
            elif c in ')]}': depth -= 1
            elif c == '>' and not (i > 0 and s[i-1] in '-='): depth -= 1
        if c == sep and depth == 0 and not instr:
            out.append(''.join(cur).strip()); cur = []
        else:
            cur.append(c)
        i += 1
    t = ''.join(cur).strip()
    if t: out.append(t)
    return out

def load_mir(path, fns):
    cur = None; blk = None
    for line in open(path):
        line = line.rstrip('\n')
        if not line.startswith(' ') and line.endswith('{') and re.match(r'^(fn|const|static) ', line):
            head = line[:-2]
            if head.startswith('fn '):
                head = head[3:]
                k = re.search(r'\((_1: |\) -> |\)$)', head)
                name = head[:k.start()]; rest = head[k.start():]
                depth = 0
                for i, c in enumerate(rest):
                    if c == '(': depth += 1
                    elif c == ')':
                        depth -= 1
                        if depth == 0: break
                cur = Fn(name, head)
                for p in split_top(rest[1:i]):
                    pm = re.match(r'(_\d+): (.*)$', p)
                    cur.params.append(pm.group(1)); cur.locals[pm.group(1)] = pm.group(2)
                r = rest[i+1:].strip()
                cur.ret = r[3:].strip() if r.startswith('->') else '()'
            else:
                mm = re.match(r'^(?:const|static) (.*): (.*?) =$', head)
                cur = Fn('const ' + mm.group(1).strip(), head); cur.ret = mm.group(2)
            fns.setdefault(cur.name, []).append(cur); blk = None
            continue
        if not line.startswith(' ') and line.startswith('const ') and line.endswith(';'):
            mm = re.match(r'^const (.*): (.*?) = const (.*);$', line)
            if mm:
                f = Fn('const ' + mm.group(1).strip(), line); f.ret = mm.group(2)
                f.blocks['bb0'] = ['_0 = const ' + mm.group(3), 'return']; f.locals['_0'] = mm.group(2)
                fns.setdefault(f.name, []).append(f)
            continue
        if cur is None: continue
        if line == '}': cur = None; continue
        m = re.match(r'^\s+let (?:mut )?(_\d+): (.*);$', line)
        if m: cur.locals[m.group(1)] = m.group(2); continue
        m = re.match(r'^\s+(bb\d+)(?: \(cleanup\))?: \{$', line)
        if m: blk = []; cur.blocks[m.group(1)] = blk; continue
        if blk is not None:
            s = line.strip()
            if s == '}': blk = None
            elif s: blk.append(s[:-1] if s.endswith(';') else s)

def last_seg(ty):
    ty = ty.strip()
    ty = re.sub(r"^&('\w+ )?(mut )?", '', ty)
    out = []; depth = 0
    for i, c in enumerate(ty):
        if c == '<': depth += 1
        elif c == '>' and not (i > 0 and ty[i-1] in '-='): depth -= 1
        elif depth == 0: out.append(c)
    out = ''.join(out).rstrip(':')
    return out.split('::')[-1].strip()

ENUMS = {'Option': ['None', 'Some'], 'Result': ['Ok', 'Err'], 'ControlFlow': ['Continue', 'Break']}
STRUCTS = {}
def scan_types(paths):
    # serde mirror structs of the JSON layer share simple names with the model types: keep them apart
    for p in sorted(paths, key=lambda x: 'model/src/json_serialisation' not in x):
        pre = 'Json' if 'model/src/json_serialisation' in p else ''
        src = re.sub(r'//[^\n]*', '', open(p).read())
        for m in re.finditer(r'\benum (\w+)[^{;]*\{(.*?)\n\}', src, re.S):
            body = re.sub(r'#\[.*?\]', '', m.group(2)); vs = []
            for part in split_top(body):
                vm = re.match(r'\s*(\w+)', part)
                if vm: vs.append(vm.group(1))
            ENUMS[pre + m.group(1)] = vs
        for m in re.finditer(r'\bstruct (\w+)[^{;(]*\{(.*?)\n\}', src, re.S):
            fs = []
            for part in split_top(m.group(2)):
                fm = re.match(r'\s*(?:#\[[^\]]*\]\s*)*(?:pub(?:\([\w:]+\))? )?(\w+)\s*:', part)
                if fm: fs.append(fm.group(1))
            STRUCTS[pre + m.group(1)] = fs

IMPLS = {}
def norm_trait(tr):
    tr = tr.strip()
    m = re.match(r'^([\w:]+?)(?:<(.*)>)?$', tr)
    if not m: return last_seg(tr)
    name = m.group(1).split('::')[-1]
    if m.group(2):
        args = [last_seg(a) for a in split_top(m.group(2)) if not a.strip().startswith("'")]
        if args: return name + '<' + ','.join(args) + '>'
    return name
def impl_key(fname):
    m = re.search(r'<impl at ([^>]*?):(\d+):(\d+): (\d+):(\d+)>', fname)
    return (m.group(1), int(m.group(2)), int(m.group(3)), int(m.group(5))) if m else None
def scan_impls(fns, roots):
    for k in fns:
        key = impl_key(k)
        if not key or key in IMPLS: continue
        path, l, c, c2 = key; pth = None
        for r in roots:
            cand = path if os.path.isabs(path) else os.path.join(r, path)
            if os.path.exists(cand): pth = cand; break
        if not pth: continue
        lines = open(pth).read().split('\n'); text = lines[l-1][c-1:]
        if text.startswith('impl'):
            hdr = ' '.join(lines[l-1:l+4])[c-1:].split('{')[0]
            hdr = re.sub(r'^impl(<[^>]*>)?\s*', '', hdr).strip()
            if ' for ' in hdr:
                tr, ty = hdr.split(' for ', 1); IMPLS[key] = (norm_trait(tr), last_seg(ty.split(' where')[0]))
            else:
                IMPLS[key] = (None, last_seg(hdr.split(' where')[0]))
        else:
            tr = lines[l-1][c-1:c2-1]
            for j in range(l-1, min(l+8, len(lines))):
                mm = re.search(r'(?:enum|struct) (\w+)', lines[j])
                if mm: IMPLS[key] = (tr, mm.group(1)); break

# ===================================================================== values
INT_W = {'u8': 8, 'u16': 16, 'u32': 32, 'u64': 64, 'usize': 64, 'i8': 8, 'i16': 16, 'i32': 32, 'i64': 64, 'isize': 64, 'u128': 128, 'i128': 128}
def is_signed(t): return t.startswith('i')
class Cell:
    __slots__ = ('v',)
    def __init__(self, v=None): self.v = v
class Ref:
    __slots__ = ('cell', 'proj')
    def __init__(self, cell, proj=()): self.cell = cell; self.proj = tuple(proj)
class Agg:
    __slots__ = ('ty', 'variant', 'fields')
    def __init__(self, ty, variant, fields): self.ty = ty; self.variant = variant; self.fields = fields
    def __repr__(self): return 'Agg(%s#%s,%d)' % (self.ty, self.variant, len(self.fields))
class Lazy:
    def __init__(self, ty, name): self.ty = ty; self.name = name; self.discr = None; self.kids = {}
class Scalar:
    __slots__ = ('e', 'ty')
    def __init__(self, e, ty): self.e = e; self.ty = ty
    def __repr__(self): return 'Scalar(%s:%s)' % (self.e, self.ty)
class VecVal:
    __slots__ = ('cells',)
    def __init__(self, cells): self.cells = cells
class Slice:      # &[T] : shares cells
    __slots__ = ('cells',)
    def __init__(self, cells): self.cells = cells
class StrVal:
    __slots__ = ('text',)
    def __init__(self, text): self.text = text
class MapVal:
    """abstract finite map: list of (key value, Cell) in insertion order; `kind` only documents the modelled container"""
    def __init__(self, entries=None, name='map'): self.entries = entries or []; self.name = name
class Opaque:
    def __init__(self, what): self.what = what
    def __repr__(self): return 'Opaque(%s)' % self.what
class FloatV:
    def __init__(self, v): self.v = v; self.ty = 'f32'
UNIT = Agg('()', None, [])
# Concrete values are plain Python ints / bools (fast path); only symbolic values are z3 terms.
def is_c(e): return isinstance(e, int)          # bool is a subclass of int
def Z(e):
    """z3 term of a value that may be a Python constant"""
    if isinstance(e, bool): return z3.BoolVal(e)
    if isinstance(e, int): return z3.IntVal(e)
    return e
def z_not(a): return (not a) if isinstance(a, bool) else z3.Not(a)
def z_and(*xs):
    ys = []
    for x in xs:
        if x is False: return False
        if x is True: continue
        ys.append(x)
    if not ys: return True
    return ys[0] if len(ys) == 1 else z3.And(*ys)
def z_or(*xs):
    ys = []
    for x in xs:
        if x is True: return True
        if x is False: continue
        ys.append(x)
    if not ys: return False
    return ys[0] if len(ys) == 1 else z3.Or(*ys)
def z_ite(c, a, b):
    if isinstance(c, bool): return a if c else b
    return z3.If(c, Z(a), Z(b))
def norm(e):
    """fold a z3 term that is a literal into a Python constant"""
    if isinstance(e, int): return e
    if z3.is_int_value(e): return e.as_long()
    if z3.is_true(e): return True
    if z3.is_false(e): return False
    return e
def sx(e):
    """printable simplified form of a value that may be a Python constant"""
    return e if isinstance(e, int) else z3.simplify(e)
def bv(v, ty): return Scalar(int(v), ty)
TRUE = Scalar(True, 'bool'); FALSE = Scalar(False, 'bool')
def boolv(b): return TRUE if b else FALSE
def some(v): return Agg('Option', 1, [v])
def NONE(): return Agg('Option', 0, [])
def ok(v): return Agg('Result', 0, [v])
def err(v): return Agg('Result', 1, [v])
def tup(*xs): return Agg('tuple', None, list(xs))
def conc(s):
    """concrete python value of a Scalar or None"""
    e = s.e
    if isinstance(e, int): return e
    if z3.is_int_value(e): return e.as_long()
    if z3.is_true(e): return True
    if z3.is_false(e): return False
    e = z3.simplify(e)
    if z3.is_int_value(e): return e.as_long()
    if z3.is_true(e): return True
    if z3.is_false(e): return False
    return None

VAR_RANGE = {}   # z3 var name -> (lo, hi) inclusive
PATH_RNG = {}    # expr id -> (lo, hi), valid under the current path condition only (solver-derived)
_rng_memo = {}
_keep = []       # keeps z3 terms alive whose ids are used as dict keys
INF = 1 << 200
def conc_struct(v):
    """hashable structural constant of a value made of concrete scalars / strings / aggregates, else None"""
    if isinstance(v, Scalar):
        x = conc(v); return None if x is None else ('s', x)
    if isinstance(v, StrVal): return ('str', v.text)
    if isinstance(v, Agg):
        fs = []
        for f in v.fields:
            if isinstance(f, Cell): return None
            x = conc_struct(f)
            if x is None: return None
            fs.append(x)
        return ('a', v.ty, v.variant, tuple(fs))
    return None
def rng(e):
    """interval of an Int term, conservative; (-INF, INF) if unknown"""
    if isinstance(e, int): return (e, e)
    k = e.get_id()
    r = PATH_RNG.get(k)
    if r is not None: return r
    r = _rng_memo.get(k)
    if r is not None: return r
    full = (-INF, INF); r = full
    if z3.is_int_value(e): r = (e.as_long(), e.as_long())
    elif z3.is_const(e): r = VAR_RANGE.get(e.decl().name(), full)
    else:
        kind = e.decl().kind(); ch = e.children()
        if kind == z3.Z3_OP_ADD:
            rs = [rng(c) for c in ch]; r = (sum(x[0] for x in rs), sum(x[1] for x in rs))
        elif kind == z3.Z3_OP_SUB and len(ch) == 2:
            (a0, a1), (b0, b1) = rng(ch[0]), rng(ch[1]); r = (a0 - b1, a1 - b0)
        elif kind == z3.Z3_OP_UMINUS: a0, a1 = rng(ch[0]); r = (-a1, -a0)
        elif kind == z3.Z3_OP_MUL and len(ch) == 2:
            (a0, a1), (b0, b1) = rng(ch[0]), rng(ch[1]); ps = [a0*b0, a0*b1, a1*b0, a1*b1]; r = (min(ps), max(ps))
        elif kind == z3.Z3_OP_ITE: (a0, a1), (b0, b1) = rng(ch[1]), rng(ch[2]); r = (min(a0, b0), max(a1, b1))
        elif kind == z3.Z3_OP_IDIV and z3.is_int_value(ch[1]) and ch[1].as_long() > 0:
            a0, a1 = rng(ch[0]); c = ch[1].as_long(); r = (a0 // c, a1 // c)
        elif kind == z3.Z3_OP_MOD and z3.is_int_value(ch[1]) and ch[1].as_long() > 0:
            a0, a1 = rng(ch[0]); c = ch[1].as_long(); r = (a0, a1) if 0 <= a0 and a1 < c else (0, c - 1)
        r = (max(r[0], -INF), min(r[1], INF))
    _rng_memo[k] = r; _keep.append(e); return r
def ty_range(ty):
    w = INT_W[ty]
    return (-(1 << (w - 1)), (1 << (w - 1)) - 1) if is_signed(ty) else (0, (1 << w) - 1)
def wrap(e, ty):
    """reduce an Int term into the range of ty with two's complement wrap-around (exact)"""
    lo, hi = ty_range(ty)
    if isinstance(e, int):
        if lo <= e <= hi: return e
        m = 1 << INT_W[ty]; return ((e - lo) % m) + lo
    a0, a1 = rng(e)
    if lo <= a0 and a1 <= hi: return e
    m = 1 << INT_W[ty]
    if a0 >= lo and a1 <= hi + m: return z3.If(e > hi, e - m, e)
    if a0 >= lo - m and a1 <= hi: return z3.If(e < lo, e + m, e)
    return e % m if not is_signed(ty) else ((e - lo) % m) + lo
class PathAbort(Exception): pass
class Panic(Exception):
    def __init__(self, msg): self.msg = msg
class Unsupported(Exception): pass

def clone_val(v):
    if isinstance(v, VecVal): return VecVal([Cell(clone_val(c.v)) for c in v.cells])
    if isinstance(v, Agg):
        if v.ty == 'Arc': return v          # Arc::clone shares
        return Agg(v.ty, v.variant, [clone_val(f) for f in v.fields])
    if isinstance(v, MapVal):
        m = MapVal([(k, Cell(clone_val(c.v))) for k, c in v.entries], v.name)
        if hasattr(v, 'ordered'): m.ordered = v.ordered
        return m
    return v   # scalars, refs, lazies (treated immutable), strings, cells (Arc payload)
def copy_val(v):
    """value semantics of a `copy` operand: aggregates must not alias"""
    if isinstance(v, Agg) and v.fields and v.ty != 'Arc': return Agg(v.ty, v.variant, [copy_val(f) for f in v.fields])
    return v

def sym_int(ex, name, ty, lo=None, hi=None):
    """fresh bounded integer input variable (hi inclusive)"""
    tlo, thi = ty_range(ty)
    lo = tlo if lo is None else lo; hi = thi if hi is None else hi
    v = z3.Int(name); VAR_RANGE[name] = (lo, hi); ex.pc_global.append(z3.And(v >= lo, v <= hi)); ex.inputs[name] = v
    return Scalar(v, ty)
def sym_bool(ex, name):
    v = z3.Bool(name); ex.inputs[name] = v; return Scalar(v, 'bool')
def sym_option(ex, name, inner):
    """Option<T> with symbolic presence; inner is the payload value"""
    p = z3.Bool(name + '?'); ex.inputs[name + '?'] = p
    l = Lazy('Option<T>', name); l.discr = z3.If(p, z3.IntVal(1), z3.IntVal(0)); l.kids[('Some', 0)] = inner
    return l, p

# ===================================================================== executor
def parse_call(t):
    """`dest = callee(args) -> [return: bbN, unwind ...]` or `... -> unwind ...` (diverging); None if not a call"""
    m = re.search(r' -> \[return: (bb\d+), unwind[^\]]*\]$', t)
    if m: body = t[:m.start()]; nxt = m.group(1)
    else:
        m = re.search(r' -> unwind [\w ]+$', t)
        if not m: return None
        body = t[:m.start()]; nxt = None
    if not body.endswith(')') or ' = ' not in body: return None
    stack = []; instr = False; last_open = None; i = 0; n = len(body)
    while i < n:
        c = body[i]
        if instr:
            if c == '\\': i += 2; continue
            if c == '"': instr = False
        else:
            if c == '"': instr = True
            elif c == '(': stack.append(i)
            elif c == ')':
                if not stack: return None
                last_open = stack.pop()
        i += 1
    if stack or last_open is None: return None
    head = body[:last_open]; argstr = body[last_open + 1:-1]
    k = head.index(' = ')
    return head[:k], head[k + 3:], argstr, nxt

class Exec:
    def __init__(self, fns, models, overflow_checks=True, step_budget=30_000_000, query_timeout_ms=120_000):
        self.fns = fns; self.models = [(re.compile(p), f) for p, f in models]
        self.overflow_checks = overflow_checks
        self.solver = z3.Solver(); self.solver.set('timeout', query_timeout_ms)
        self.pc = []; self.pending = []
        self.decisions = []; self.replay = []; self.replay_pos = 0
        self.stats = {'calls': 0, 'forks': 0, 'queries': 0, 'steps': 0, 'solver_s': 0.0, 'paths': 0}
        self.stack = []; self.pc_global = []; self.inputs = {}
        self.step_budget = step_budget; self.loop_budget = 4096
        self.by_method = {}
        for k, v in fns.items():
            if '{closure#' in k: continue
            self.by_method.setdefault(k.split('::')[-1], []).append(k)
        self.closures = {}
        for k, v in fns.items():
            if k.endswith('}') and '{closure#' in k:
                f = v[0]
                m = re.search(r'\{closure@[^}]*\}', f.locals.get('_1', ''))
                if m: self.closures[m.group(0)] = f
        self.res_cache = {}; self.call_cache = {}; self.place_cache = {}; self.op_cache = {}
        self.used_models = set(); self.used_fns = set()
        self.abstract_products = False; self.abstracted = 0; self.nprod = 0; self.no_aux = False
        self.covers = set()
        self.fork_mode = False; self.is_child = False; self.child_hook = None; self.child_failures = 0
        self.merge_patterns = []; self.merging = False; self.merge_cache = {}; self.nmerge = 0; self._g_asserted = []; self._spc = []
    # ---- forking
    def sync(self):
        """bring the incremental solver in line with pc_global + pc (one push-scope per pc element, so that
        truncating the path condition is a pop)"""
        solver = self.solver; pc = self.pc
        if getattr(self, '_g_list', None) is not self.pc_global or len(self.pc_global) < len(self._g_asserted):
            solver.reset(); self._spc = []; self._g_list = self.pc_global; self._g_asserted = []
        sp = self._spc; n = min(len(pc), len(sp)); i = 0
        while i < n and pc[i] is sp[i]: i += 1
        if i < len(sp):
            solver.pop(len(sp) - i); del sp[i:]
            for k, (c, d) in enumerate(self._g_asserted):
                if d > i: solver.add(c); self._g_asserted[k] = (c, i)
        for c in pc[i:]:
            solver.push(); solver.add(c); sp.append(c)
        g = self.pc_global
        for c in g[len(self._g_asserted):]:
            solver.add(c); self._g_asserted.append((c, len(sp)))
    def check(self, extra):
        self.stats['queries'] += 1
        self.sync()
        t0 = time.time()
        r = self.solver.check(extra)
        self.stats['solver_s'] += time.time() - t0
        if r == z3.unknown: raise Unsupported('solver returned unknown (%s)' % self.solver.reason_unknown())
        return r == z3.sat
    def cover(self, tag): self.covers.add(tag)
    def decide(self, cond):
        if cond is True: return True
        if cond is False: return False
        if z3.is_true(cond): return True
        if z3.is_false(cond): return False
        cond = z3.simplify(cond)
        if z3.is_true(cond): return True
        if z3.is_false(cond): return False
        if self.replay_pos < len(self.replay):
            d = self.replay[self.replay_pos]; self.replay_pos += 1; self.decisions.append(d)
            self.pc.append(cond if d else z3.Not(cond)); return d
        t = self.check(cond); f = self.check(z3.Not(cond)) if t else True
        if t and f:
            self.stats['forks'] += 1
            if self.fork_mode:
                # OS-level fork instead of re-execution: the child explores the False branch (and its whole
                # subtree) first, the parent waits and then continues with the True branch
                sys.stdout.flush(); sys.stderr.flush()
                pid = os.fork()
                if pid == 0:
                    self.is_child = True
                    if self.child_hook: self.child_hook()
                    self.decisions.append(False); self.pc.append(z3.Not(cond)); return False
                _, st = os.waitpid(pid, 0)
                if st != 0: self.child_failures += 1
                self.decisions.append(True); self.pc.append(cond); return True
            self.pending.append(self.decisions + [False])
            self.decisions.append(True); self.pc.append(cond); return True
        if t: self.decisions.append(True); self.pc.append(cond); return True
        if f: self.decisions.append(False); self.pc.append(z3.Not(cond)); return False
        raise PathAbort()
    def assume(self, cond):
        """restrict the current path (precondition); aborts the path if infeasible"""
        if cond is True: return
        if cond is False: raise PathAbort()
        cond = z3.simplify(cond)
        if z3.is_true(cond): return
        if z3.is_false(cond): raise PathAbort()
        self.pc.append(cond)
        if self.replay_pos < len(self.replay): return
        if not self.check(z3.BoolVal(True)): raise PathAbort()
    def explore(self, body, max_paths=200000, progress=None):
        """returns list of (pc, result | Panic)"""
        self.pending = [[]]; out = []
        while self.pending:
            if len(out) >= max_paths: raise Unsupported('path budget (%d) exceeded' % max_paths)
            self.replay = self.pending.pop(); self.replay_pos = 0; self.decisions = []; self.pc = []; self.stack = []
            PATH_RNG.clear(); _rng_memo.clear(); del _keep[:]; self.nlazy = 0
            try:
                r = body(); out.append((list(self.pc), r))
            except PathAbort: continue
            except Panic as p: out.append((list(self.pc), p))
            self.stats['paths'] = len(out)
            if progress and len(out) % 200 == 0: progress(len(out), len(self.pending), self.stats)
        return out
    def aux(self, f):
        """deterministic-under-replay auxiliary solver result"""
        if self.replay_pos < len(self.replay):
            r = self.replay[self.replay_pos]; self.replay_pos += 1; self.decisions.append(r); return r
        r = f(); self.decisions.append(r); return r
    def concretize(self, s, lo, hi):
        """fork over concrete values of an integer Scalar within [lo,hi)"""
        c = conc(s)
        if c is not None: return c
        for i in range(lo, hi):
            if self.decide(s.e == i): return i
        raise PathAbort()
    def concretize_or_oob(self, s, n):
        c = conc(s)
        if c is not None:
            if c >= n or c < 0: raise Panic('index out of bounds')
            return c
        for i in range(n):
            if self.decide(s.e == i): return i
        raise Panic('index out of bounds')
    # ---- symbolic materialisation
    def mk_lazy(self, ty, name):
        ty = ty.strip()
        if ty == 'bool': return Scalar(z3.Bool(name), 'bool')
        if ty in INT_W:
            v = z3.Int(name); lo, hi = ty_range(ty)
            if name not in VAR_RANGE: VAR_RANGE[name] = (lo, hi); self.pc_global.append(z3.And(v >= lo, v <= hi))
            return Scalar(v, ty)
        if ty.startswith('&'):
            inner = re.sub(r"^&('\w+ )?(mut )?", '', ty)
            return Ref(Cell(self.mk_lazy(inner, name + '*')))
        mm = re.match(r'^(?:std::ptr::)?NonNull<(.*)>$', ty)
        if mm: return Ref(Cell(self.mk_lazy(mm.group(1), name + '*')))
        return Lazy(ty, name)
    def discr_of(self, v):
        if isinstance(v, Agg): return Scalar(v.variant if v.variant is not None else 0, 'isize')
        if isinstance(v, Lazy):
            if v.discr is None:
                n = len(ENUMS.get(last_seg(v.ty), [])) or 2
                v.discr = z3.Int(v.name + '.discr')
                self.pc_global.append(z3.And(v.discr >= 0, v.discr < n)); VAR_RANGE[v.name + '.discr'] = (0, n - 1)
            return Scalar(v.discr, 'isize')
        raise Unsupported('discr of %r (stack %s)' % (v, self.stack[-3:]))
    def field_of(self, v, variant, idx, ty):
        if isinstance(v, Agg):
            try: return v.fields[idx]
            except IndexError: raise Unsupported('field %s.%d of %r (stack %s)' % (variant, idx, v, self.stack[-3:]))
        if isinstance(v, Lazy):
            key = (variant, idx)
            if key not in v.kids: v.kids[key] = self.mk_lazy(ty, '%s.%s%d' % (v.name, (variant + '.') if variant else '', idx))
            return v.kids[key]
        raise Unsupported('field %s.%d of %r (stack %s)' % (variant, idx, v, self.stack[-3:]))
    def set_field(self, v, variant, idx, val):
        if isinstance(v, Agg): v.fields[idx] = val
        elif isinstance(v, Lazy): v.kids[(variant, idx)] = val
        else: raise Unsupported('set_field on %r' % v)
    # ---- places
    def parse_place(self, s):
        r = self.place_cache.get(s)
        if r is None: r = self._pp(s.strip()); self.place_cache[s] = r
        return r
    def _pp(self, s):
        s = s.strip()
        if re.match(r'^_\d+$', s): return (s, ())
        if s.endswith(']'):
            depth = 0
            for i in range(len(s) - 1, -1, -1):
                if s[i] == ']': depth += 1
                elif s[i] == '[':
                    depth -= 1
                    if depth == 0: break
            base, pr = self._pp(s[:i]); idx = s[i+1:-1]
            return (base, pr + (('index', idx),))
        if s.startswith('(*') and s.endswith(')') and self._bal(s[2:-1]):
            base, pr = self._pp(s[2:-1]); return (base, pr + (('deref',),))
        if s.startswith('(') and s.endswith(')'):
            inner = s[1:-1]; depth = 0
            for i, c in enumerate(inner):
                if c in '([{<': depth += 1
                elif c in ')]}': depth -= 1
                elif c == '>' and inner[i-1] not in '-=': depth -= 1
                elif c == ':' and depth == 0 and inner[i+1:i+2] == ' ':
                    left, ty = inner[:i], inner[i+2:]; k = left.rfind('.')
                    base, pr = self._pp(left[:k]); idx = int(left[k+1:]); variant = None
                    if pr and pr[-1][0] == 'downcast': variant = pr[-1][1]; pr = pr[:-1]
                    return (base, pr + (('field', variant, idx, ty),))
            m = re.match(r'^(.*) as (\w+)$', inner)
            if m:
                base, pr = self._pp(m.group(1)); return (base, pr + (('downcast', m.group(2)),))
        raise Unsupported('place? ' + s)
    def _bal(self, s):
        d = 0
        for c in s:
            if c == '(': d += 1
            elif c == ')':
                d -= 1
                if d < 0: return False
        return d == 0
    def step_proj(self, frame, v, x):
        k = x[0]
        if k == 'field': return self.field_of(v, x[1], x[2], x[3])
        if k == 'index':
            cells = v.cells
            if x[1].startswith('_'): i = self.concretize_or_oob(frame[x[1]].v, len(cells))
            else: i = int(x[1].split(' ')[0])
            return cells[i].v
        if k == 'downcast': return v
        raise Unsupported('proj ' + str(x))
    def deref_val(self, r):
        if isinstance(r, (Slice, StrVal)): return r
        if not isinstance(r, Ref): raise Unsupported('deref of non-ref %r (stack %s)' % (r, self.stack[-3:]))
        v = r.cell.v
        for y in r.proj: v = self.step_proj(None, v, y)
        return v
    def strip(self, v):
        while isinstance(v, Ref): v = self.deref_val(v)
        return v
    def read_place(self, frame, base, pr):
        v = frame[base].v
        for x in pr:
            if x[0] == 'deref': v = self.deref_val(v)
            else: v = self.step_proj(frame, v, x)
        return v
    def place_ref(self, frame, base, pr):
        cell = frame[base]; proj = []
        for x in pr:
            if x[0] == 'deref':
                v = cell.v
                for y in proj: v = self.step_proj(frame, v, y)
                if isinstance(v, (Slice, StrVal)): return v
                if not isinstance(v, Ref): raise Unsupported('deref of non-ref %r in place (stack %s)' % (v, self.stack[-3:]))
                cell = v.cell; proj = list(v.proj)
            elif x[0] == 'index':
                v = cell.v
                for y in proj: v = self.step_proj(frame, v, y)
                if x[1].startswith('_'): i = self.concretize_or_oob(frame[x[1]].v, len(v.cells))
                else: i = int(x[1].split(' ')[0])
                cell = v.cells[i]; proj = []
            elif x[0] == 'downcast': pass
            else: proj.append(x)
        return Ref(cell, proj)
    def write_ref(self, r, val):
        if not r.proj: r.cell.v = val; return
        v = r.cell.v
        for y in r.proj[:-1]: v = self.step_proj(None, v, y)
        y = r.proj[-1]; self.set_field(v, y[1], y[2], val)
    def write_place(self, frame, base, pr, val):
        if not pr: frame[base].v = val
        else: self.write_ref(self.place_ref(frame, base, pr), val)
    # ---- operands / rvalues (compiled to small tuples once per distinct string)
    def const(self, s):
        s = s.strip()
        m = re.match(r'^(-?\d+)_(\w+)$', s)
        if m: return bv(int(m.group(1)), m.group(2))
        if s in ('true', 'false'): return boolv(s == 'true')
        if s == '()': return UNIT
        if s.startswith('"') or s.startswith('b"'): return StrVal(s)
        m = re.match(r'^(-?[\d.]+(?:[eE][-+]?\d+)?)f(32|64)$', s)
        if m: return FloatV(float(m.group(1)))
        m = re.match(r'^(?:core::num::<impl )?(\w+?)>?::(MAX|MIN)$', s)
        if m and m.group(1) not in INT_W: m = None
        if m: return bv(ty_range(m.group(1))[1 if m.group(2) == 'MAX' else 0], m.group(1))
        if s.startswith('ZeroSized: '):
            t = s[11:]
            if t.startswith('{closure@'): return Agg(t, None, [])
            return Opaque(t)
        key = re.sub(r'::<[^()]*?>', '', s)
        mm = re.match(r'^(.+)::(\w+)$', key)
        if mm and last_seg(mm.group(1)) in ENUMS and mm.group(2) in ENUMS[last_seg(mm.group(1))]:
            en = last_seg(mm.group(1)); return Agg(en, ENUMS[en].index(mm.group(2)), [])
        if 'promoted[' in key and self.stack:
            # a promoted constant belongs to the function that is executing: resolve it by that function's own name
            # (the suffix `sub::promoted[0]` alone is ambiguous between impls with equally named methods)
            pm = re.search(r'promoted\[(\d+)\]$', key)
            if pm:
                k0 = 'const %s::promoted[%s]' % (self.stack[-1], pm.group(1))
                if k0 in self.fns: return self.call_fn(self.fns[k0][0], [])
        suffix = '::'.join(key.split('::')[-2:]) if 'promoted[' in key else key.split('::')[-1]
        owner = last_seg(key.rsplit('::', 1)[0]) if '::' in key and 'promoted[' not in key else None
        for k in self.fns:
            if k.startswith('const ') and (k.endswith('::' + suffix) or k == 'const ' + suffix):
                if 'promoted[' in key:
                    # promoted of which function?  match the owner path as far as it is printed
                    pass
                if owner and 'promoted' not in k:
                    ik = impl_key(k)
                    if ik and IMPLS.get(ik, (None, None))[1] != owner: continue
                if 'promoted[' in key:
                    amb = [k2 for k2 in self.fns if k2.startswith('const ') and k2.endswith('::' + suffix)]
                    if len(amb) > 1: raise Unsupported('ambiguous promoted constant %s in %s: %s' % (s, self.stack[-1:] , amb[:3]))
                return self.call_fn(self.fns[k][0], [])
        if re.match(r'^[A-Z]\w*$', key.split('::')[-1]) and 'promoted' not in key: return Agg(key.split('::')[-1], None, [])      # unit struct value
        raise Unsupported('const? ' + s)
    def compile_operand(self, s):
        r = self.op_cache.get(s)
        if r is not None: return r
        t = s.strip()
        m = re.match(r'^(copy|move|no_retag copy|no_retag move) (.*)$', t)
        if m:
            base, pr = self.parse_place(m.group(2)); r = ('c' if 'copy' in m.group(1) else 'm', base, pr)
        elif t.startswith('const '):
            c = t[6:]
            if re.match(r'^(-?\d+_\w+|true|false|\(\))$', c.strip()): r = ('k', self.const(c))
            else: r = ('K', c)
        elif re.match(r'^[A-Za-z_<][^ ]*(::[^ ]+)+( as [^ ]+)?[^ ]*$', t) or re.match(r'^(core|std|alloc)::', t):
            r = ('k', Opaque(t))          # function item used as a value (e.g. `fold(0, u32::saturating_add)`): called through call_closure
        else: raise Unsupported('operand? ' + s)
        self.op_cache[s] = r; return r
    def eval_op(self, frame, o):
        k = o[0]
        if k == 'm': return self.read_place(frame, o[1], o[2])
        if k == 'c': return copy_val(self.read_place(frame, o[1], o[2]))
        if k == 'k': return o[1]
        return self.const(o[1])
    def operand(self, frame, s): return self.eval_op(frame, self.compile_operand(s))
    def binop(self, op, a, b):
        if isinstance(a, FloatV) or isinstance(b, FloatV):
            av = a.v if isinstance(a, FloatV) else float(conc(a)); bvv = b.v if isinstance(b, FloatV) else float(conc(b))
            return boolv({'Ge': av >= bvv, 'Gt': av > bvv, 'Lt': av < bvv, 'Le': av <= bvv, 'Eq': av == bvv, 'Ne': av != bvv}[op])
        ae, be = a.e, b.e
        if a.ty == 'bool':
            if isinstance(ae, bool) and isinstance(be, bool):
                return boolv({'Eq': ae == be, 'Ne': ae != be, 'BitAnd': ae and be, 'BitOr': ae or be, 'BitXor': ae != be}[op])
            f = {'Eq': lambda x, y: x == y, 'Ne': lambda x, y: x != y, 'BitAnd': z3.And, 'BitOr': z3.Or, 'BitXor': z3.Xor}[op]
            return Scalar(f(Z(ae), Z(be)), 'bool')
        both = isinstance(ae, int) and isinstance(be, int)
        if op == 'Eq': return Scalar(ae == be, 'bool')
        if op == 'Ne': return Scalar(ae != be, 'bool')
        if op == 'Lt': return Scalar(ae < be, 'bool')
        if op == 'Le': return Scalar(ae <= be, 'bool')
        if op == 'Gt': return Scalar(ae > be, 'bool')
        if op == 'Ge': return Scalar(ae >= be, 'bool')
        if op in ('Div', 'Rem'):
            if both:
                if be == 0: raise Panic('attempt to divide by zero')
                if ae < 0 or be < 0: raise Unsupported('signed div of negative value')
                return Scalar(ae // be if op == 'Div' else ae % be, a.ty)
            if is_signed(a.ty) and rng(ae)[0] < 0: raise Unsupported('signed div of possibly negative value')
            c = be if isinstance(be, int) else conc(b)
            if c is None: raise Unsupported('division by a symbolic value (stack %s)' % self.stack[-3:])
            if c == 0: raise Panic('attempt to divide by zero')
            if c > 0 and 0 <= rng(ae)[0] and rng(ae)[1] < c:
                return Scalar(0 if op == 'Div' else ae, a.ty)
            return Scalar(norm(z3.simplify(ae / c if op == 'Div' else ae % c)), a.ty)
        base = op[:-12] if op.endswith('WithOverflow') else op
        if base.endswith('Unchecked'): base = base[:-9]
        if base in ('Add', 'Sub', 'Mul'):
            lo, hi = ty_range(a.ty)
            if both:
                full = ae + be if base == 'Add' else (ae - be if base == 'Sub' else ae * be)
                inr = lo <= full <= hi
                if op.endswith('WithOverflow'): return Agg('tuple', None, [Scalar(full if inr else wrap(full, a.ty), a.ty), boolv(not inr)])
                return Scalar(full if inr else wrap(full, a.ty), a.ty)
            if base == 'Mul' and not isinstance(ae, int) and not isinstance(be, int):
                if not self.abstract_products: raise Unsupported('non-linear multiplication (stack %s)' % self.stack[-3:])
                (a0, a1), (b0, b1) = rng(ae), rng(be); ps = [a0*b0, a0*b1, a1*b0, a1*b1]
                self.nprod += 1
                pv = z3.Int('prod!%d!%d' % (len(self.decisions), self.nprod)); VAR_RANGE[pv.decl().name()] = (min(ps), max(ps))
                self.pc_global.append(z3.And(pv >= min(ps), pv <= max(ps))); self.abstracted += 1
                full = pv
            else:
                full = norm(z3.simplify({'Add': lambda: ae + be, 'Sub': lambda: ae - be, 'Mul': lambda: ae * be}[base]()))
                if isinstance(full, int):
                    inr = lo <= full <= hi
                    if op.endswith('WithOverflow'): return Agg('tuple', None, [Scalar(full if inr else wrap(full, a.ty), a.ty), boolv(not inr)])
                    return Scalar(full if inr else wrap(full, a.ty), a.ty)
            r0, r1 = rng(full)
            inrange = lo <= r0 and r1 <= hi
            if not inrange and not self.no_aux:
                if self.aux(lambda: not self.check(z3.Or(full < lo, full > hi))):
                    inrange = True; PATH_RNG[full.get_id()] = (max(r0, lo), min(r1, hi)); _keep.append(full)
            if op.endswith('WithOverflow'):
                if inrange: return Agg('tuple', None, [Scalar(full, a.ty), FALSE])
                # the value component is only used on the no-overflow side of the compiler's `assert(!overflow)` (or of
                # checked_*'s test), where it equals the exact result: keep it unwrapped so that interval analysis stays tight
                return Agg('tuple', None, [Scalar(full, a.ty), Scalar(z3.Or(full < lo, full > hi), 'bool')])
            return Scalar(full if inrange else wrap(full, a.ty), a.ty)
        raise Unsupported('binop ' + op)
    BINOPS = ('Eq', 'Ne', 'Lt', 'Le', 'Gt', 'Ge', 'Add', 'Sub', 'Mul', 'Div', 'Rem', 'BitAnd', 'BitOr', 'BitXor',
              'AddWithOverflow', 'SubWithOverflow', 'MulWithOverflow', 'AddUnchecked', 'SubUnchecked', 'MulUnchecked')
    def cast(self, a, t):
        if isinstance(a, FloatV): raise Unsupported('float cast')
        if a.ty == 'bool': return Scalar(int(a.e) if isinstance(a.e, bool) else z3.If(a.e, z3.IntVal(1), z3.IntVal(0)), t)
        if t not in INT_W: raise Unsupported('cast to ' + t)
        return Scalar(wrap(a.e, t), t)
    def compile_rvalue(self, s, dest_ty):
        s = s.strip(); co = self.compile_operand
        m = re.match(r'^(\w+)\((.*)\)$', s)
        if m and m.group(1) in self.BINOPS:
            a, b = split_top(m.group(2)); return ('bin', m.group(1), co(a), co(b))
        if m and m.group(1) == 'Not': return ('not', co(m.group(2)))
        if m and m.group(1) == 'Neg': return ('neg', co(m.group(2)))
        if m and m.group(1) == 'PtrMetadata': return ('ptrmeta', co(m.group(2)))
        if m and m.group(1) == 'Len': return ('len',) + self.parse_place(m.group(2))
        if s.startswith('discriminant('): return ('discr',) + self.parse_place(s[13:-1])
        m = re.match(r'^&(?:mut |raw const |raw mut )?(.*)$', s)
        if m: return ('ref',) + self.parse_place(m.group(1))
        m = re.match(r'^(.*) as (\w+) \(IntToInt\)$', s)
        if m: return ('icast', co(m.group(1)), m.group(2))
        m = re.match(r'^(.*) as (.*) \((PointerCoercion.*|Transmute|PtrToPtr|Subtype)\)$', s)
        if m: return ('use', co(m.group(1)))
        if re.match(r'^(copy|move|no_retag copy|no_retag move|const) ', s): return ('use', co(s))
        if s.startswith('[') and s.endswith(']'):
            mm = re.match(r'^\[(.*); (\d+)\]$', s)
            if mm and len(split_top(s[1:-1], ';')) == 2: return ('repeat', co(mm.group(1)), int(mm.group(2)))
            return ('array', [co(x) for x in split_top(s[1:-1])])
        if s.startswith('(') and s.endswith(')'):
            return ('agg', 'tuple', None, [co(x) for x in split_top(s[1:-1])])
        m = re.match(r'^(\{closure@[^}]*\})(?: \{ (.*) \})?$', s)
        if m:
            return ('agg', m.group(1), None, [co(part.split(': ', 1)[1]) for part in split_top(m.group(2))] if m.group(2) else [])
        m = re.match(r'^([\w:<>, &\'\[\]\(\)]+?) \{ (.*) \}$', s)
        if m:
            nm = last_seg(m.group(1))
            if 'json_serialisation::' in m.group(1) and ('Json' + nm) in STRUCTS and nm in ('VehicleType', 'Location', 'Depot', 'Route', 'Departures', 'Parameters'): nm = 'Json' + nm
            fields = STRUCTS.get(nm)
            parts = split_top(m.group(2))
            # enum struct-like variant?  Enum::Variant { .. }
            if fields is None: fields = [p.split(': ', 1)[0] for p in parts]
            ops = [None] * len(fields)
            for part in parts:
                fn_, op = part.split(': ', 1)
                if fn_ not in fields: raise Unsupported('field %s of %s unknown (struct layout changed?)' % (fn_, nm))
                ops[fields.index(fn_)] = co(op)
            if any(o is None for o in ops): raise Unsupported('aggregate %s incomplete: %s' % (nm, s))
            return ('agg', nm, None, ops)
        mo = re.match(r'^(?:(?:std|core)::cmp::)?(?:Ordering::)?(Less|Equal|Greater)$', s)
        if mo and (dest_ty is None or last_seg(dest_ty) == 'Ordering' or 'Ordering' in s):
            return ('agg', 'Ordering', {'Less': -1, 'Equal': 0, 'Greater': 1}[mo.group(1)], [])
        m = re.match(r'^(.+)::(\w+)(?:\((.*)\))?$', s)
        if m:
            en = last_seg(m.group(1)); var = m.group(2)
            if en in ENUMS and var in ENUMS[en]:
                return ('agg', en, ENUMS[en].index(var), [co(x) for x in split_top(m.group(3))] if m.group(3) else [])
            if m.group(3) is not None:
                return ('agg', var, None, [co(x) for x in split_top(m.group(3))])
        m = re.match(r'^(\w+)(?:\((.*)\))?$', s)
        if m and dest_ty:
            en = last_seg(dest_ty)
            if en in ENUMS and m.group(1) in ENUMS[en]:
                return ('agg', en, ENUMS[en].index(m.group(1)), [co(x) for x in split_top(m.group(2))] if m.group(2) else [])
            if m.group(2) is not None:
                return ('agg', m.group(1), None, [co(x) for x in split_top(m.group(2))])
        raise Unsupported('rvalue? %s :: %s' % (s, dest_ty))
    def eval_rvalue(self, frame, r):
        k = r[0]; ev = self.eval_op
        if k == 'use': return ev(frame, r[1])
        if k == 'agg': return Agg(r[1], r[2], [ev(frame, o) for o in r[3]])
        if k == 'ref': return self.place_ref(frame, r[1], r[2])
        if k == 'bin': return self.binop(r[1], ev(frame, r[2]), ev(frame, r[3]))
        if k == 'discr': return self.discr_of(self.read_place(frame, r[1], r[2]))
        if k == 'icast': return self.cast(ev(frame, r[1]), r[2])
        if k == 'not':
            a = ev(frame, r[1])
            if a.ty != 'bool': raise Unsupported('bitwise not')
            return Scalar(z_not(a.e), 'bool')
        if k == 'neg':
            a = ev(frame, r[1]); return Scalar(wrap(-a.e, a.ty), a.ty)
        if k == 'ptrmeta': return bv(len(self.strip(ev(frame, r[1])).cells), 'usize')
        if k == 'len': return bv(len(self.read_place(frame, r[1], r[2]).cells), 'usize')
        if k == 'array': return VecVal([Cell(ev(frame, o)) for o in r[1]])
        if k == 'repeat': return VecVal([Cell(copy_val(ev(frame, r[1]))) for _ in range(r[2])])
        raise Unsupported('rvalue kind ' + k)
    def rvalue(self, frame, s, dest_ty): return self.eval_rvalue(frame, self.compile_rvalue(s, dest_ty))
    # ---- blocks
    SKIP = ('StorageLive', 'StorageDead', 'nop', 'FakeRead', 'PlaceMention', 'Retag', 'Coverage', 'ConstEvalCounter', 'AscribeUserType', 'BackwardIncompatibleDropHint')
    def compile_block(self, fn, bb):
        blk = fn.blocks[bb]; stmts = []
        for st in blk[:-1]:
            if st.startswith(self.SKIP): continue
            m = re.match(r'^(.*?) = (.*)$', st)
            if not m:
                if st.startswith('assume('): continue      # optimiser hints (`assume(cond)`): true on every real execution
                if st.startswith('deinit('): continue
                if st.startswith('set_discriminant') or st.startswith('discriminant('):
                    raise Unsupported('statement? ' + st)
                raise Unsupported('statement? ' + st)
            d = m.group(1).strip(); dty = fn.ret if d == '_0' else fn.locals.get(d)
            base, pr = self.parse_place(d)
            stmts.append((base, pr, self.compile_rvalue(m.group(2), dty)))
        t = blk[-1]; co = self.compile_operand
        if t == 'return': term = ('ret',)
        elif t == 'unreachable': term = ('unreachable',)
        else:
            m = re.match(r'^goto -> (bb\d+)$', t)
            if m: term = ('goto', m.group(1))
            else:
                m = re.match(r'^switchInt\((.*)\) -> \[(.*)\]$', t)
                if m:
                    arms = []; other = None
                    for arm in split_top(m.group(2)):
                        k, tgt = arm.split(': ')
                        if k == 'otherwise': other = tgt
                        else: arms.append((int(k), tgt))
                    term = ('switch', co(m.group(1)), arms, other)
                else:
                    m = re.match(r'^assert\((!?)(.*?), "(.*?)".*\) -> \[success: (bb\d+), unwind.*\]$', t)
                    if m: term = ('assert', bool(m.group(1)), co(m.group(2)), m.group(3), m.group(4))
                    else:
                        pc_ = parse_call(t)
                        if pc_ is not None:
                            dest, callee, argstr, nxt = pc_
                            term = ('call', self.parse_place(dest.strip()) if nxt else None, callee.strip(), [co(a) for a in split_top(argstr)], nxt)
                        else:
                            if True:
                                m = re.match(r'^drop\(.*\) -> \[return: (bb\d+), unwind.*\]$', t)
                                if m: term = ('goto', m.group(1))
                                else: raise Unsupported('terminator? ' + t)
        r = (stmts, term); fn.compiled[bb] = r; return r
    # ---- calls
    def call_fn(self, fn, args):
        st = self.stats; st['calls'] += 1
        self.stack.append(fn.name); self.used_fns.add(fn.name)
        if len(self.stack) > 400: raise Unsupported('recursion depth')
        frame = {l: Cell() for l in fn.locals}; frame['_0'] = Cell()
        for p, a in zip(fn.params, args): frame[p].v = a
        bb = 'bb0'; compiled = fn.compiled
        while True:
            c = compiled.get(bb)
            if c is None: c = self.compile_block(fn, bb)
            for base, pr, rv in c[0]:
                self.write_place(frame, base, pr, self.eval_rvalue(frame, rv))
            t = c[1]; st['steps'] += 1
            if st['steps'] > self.step_budget: raise Unsupported('step budget exceeded')
            k = t[0]
            if k == 'goto': bb = t[1]
            elif k == 'ret': self.stack.pop(); return frame['_0'].v
            elif k == 'call':
                args_ = [self.eval_op(frame, a) for a in t[3]]
                res = self.call(t[2], args_)
                if t[4] is None: raise Panic('diverging call returned: ' + t[2])
                self.write_place(frame, t[1][0], t[1][1], res); bb = t[4]
            elif k == 'switch':
                v = self.eval_op(frame, t[1]); nxt = None
                cv = v.e if isinstance(v.e, int) else conc(v)
                if cv is not None:
                    if cv is True: cv = 1
                    elif cv is False: cv = 0
                    nxt = t[3]
                    for kk, tgt in t[2]:
                        if kk == cv: nxt = tgt; break
                    if nxt is None: raise PathAbort()
                else:
                    for kk, tgt in t[2]:
                        if v.ty == 'bool': cnd = (z3.Not(v.e) if kk == 0 else v.e)
                        else: cnd = v.e == kk
                        if self.decide(cnd): nxt = tgt; break
                    if nxt is None: nxt = t[3]
                    if nxt is None: raise PathAbort()
                bb = nxt
            elif k == 'assert':
                cnd = self.eval_op(frame, t[2]).e
                if t[1]: cnd = z_not(cnd)
                if self.decide(cnd): bb = t[4]
                else: raise Panic(t[3] + ' @ ' + fn.name[-70:])
            elif k == 'unreachable': raise PathAbort()
            else: raise Unsupported('term ' + k)
    def call(self, callee, args):
        tgt = self.call_cache.get(callee)
        if tgt is None:
            for pat, f in self.models:
                if pat.match(callee): tgt = ('m', f, pat.pattern); break
            else:
                fn = self.resolve_fn(callee)
                tgt = ('g' if any(fn.name.endswith(p_) for p_ in self.merge_patterns) else 'f', fn)
            self.call_cache[callee] = tgt
        if tgt[0] == 'm':
            self.used_models.add(tgt[2]); return tgt[1](self, callee, args)
        if tgt[0] == 'g': return self.call_merged(tgt[1], args)
        return self.call_fn(tgt[1], args)
    def call_merged(self, fn, args):
        """state merging for pure query functions: explore the callee's paths locally and return ONE value whose
        leaves are ite-terms over the callee's path conditions, instead of forking the caller"""
        if self.merging: return self.call_fn(fn, args)
        self.merging = True; self.nmerge += 1
        saved = (self.decisions, self.replay, self.replay_pos, self.pending, self.fork_mode, self.no_aux)
        base = len(self.pc); sdepth = len(self.stack)
        leaves = []; pending = [[]]; self.fork_mode = False; self.no_aux = True
        try:
            while pending:
                vec = pending.pop()
                self.decisions = []; self.replay = vec; self.replay_pos = 0; self.pending = pending
                del self.pc[base:]; del self.stack[sdepth:]
                try:
                    v = self.call_fn(fn, [copy_val(a) for a in args]); leaves.append((self.pc[base:], v))
                except PathAbort: pass
                except Panic as p: leaves.append((self.pc[base:], p))
        finally:
            self.decisions, self.replay, self.replay_pos, self.pending, self.fork_mode, self.no_aux = saved
            del self.pc[base:]; del self.stack[sdepth:]; self.merging = False
        items = []
        for cs, v in leaves:
            c = z_and(*cs)
            if isinstance(v, Panic):
                if self.decide(Z(c)): raise v
            else: items.append((c, v))
        if not items: raise PathAbort()
        return self.merge_values(items)
    def merge_values(self, items):
        vals = [v for c, v in items]; v0 = vals[0]
        if len(items) == 1: return v0
        if all(isinstance(v, Scalar) for v in vals):
            if all(isinstance(v.e, int) and v.e == v0.e and type(v.e) is type(v0.e) for v in vals): return v0
            e = Z(vals[-1].e)
            for c, v in reversed(items[:-1]): e = z3.If(Z(c), Z(v.e), e)
            return Scalar(norm(z3.simplify(e)), v0.ty)
        if all(v is v0 for v in vals): return v0
        if all(isinstance(v, StrVal) for v in vals) and all(v.text == v0.text for v in vals): return v0
        if all(isinstance(v, Opaque) for v in vals) and all(v.what == v0.what for v in vals): return v0
        if all(isinstance(v, VecVal) for v in vals) and all(len(v.cells) == len(v0.cells) for v in vals):
            return VecVal([Cell(self.merge_values([(c, v.cells[i].v) for c, v in items])) for i in range(len(v0.cells))])
        if all(isinstance(v, MapVal) for v in vals) and all(len(v.entries) == len(v0.entries) for v in vals):
            # finite maps with structurally concrete keys: merge entry-wise by key (insertion order may differ between paths)
            def ck(k):
                x = conc_struct(k)
                if x is None: raise Unsupported('merge of maps with symbolic keys')
                return x
            keys0 = [ck(k) for k, c_ in v0.entries]
            per = [{ck(k): c_ for k, c_ in v.entries} for v in vals]
            if any(set(d) != set(keys0) or len(d) != len(keys0) for d in per): raise Unsupported('merge of maps with different key sets')
            mv = MapVal([(k, Cell(self.merge_values([(c, per[j][kc].v) for j, (c, v) in enumerate(items)]))) for (k, c_), kc in zip(v0.entries, keys0)], name=getattr(v0, 'name', None))
            if hasattr(v0, 'ordered'): mv.ordered = v0.ordered
            return mv
        if all(isinstance(v, Agg) for v in vals) and all(v.ty == v0.ty and len(v.fields) == len(v0.fields) and v.variant == v0.variant for v in vals):
            if v0.ty == 'Arc':
                if not all(isinstance(v.fields[0], Cell) for v in vals): raise Unsupported('merge of Arc values')
                return Agg('Arc', v0.variant, [Cell(self.merge_values([(c, v.fields[0].v) for c, v in items]))] + list(v0.fields[1:]))
            return Agg(v0.ty, v0.variant, [self.merge_values([(c, v.fields[i]) for c, v in items]) for i in range(len(v0.fields))])
        if all(isinstance(v, (Agg, Lazy)) for v in vals) and len(set(last_seg(v.ty) for v in vals)) == 1 and last_seg(v0.ty) in ENUMS:
            en = last_seg(v0.ty); names = ENUMS[en]
            self.nlazy = getattr(self, 'nlazy', 0) + 1
            L = Lazy(en, 'merged!%d' % self.nlazy)
            L.discr = norm(z3.simplify(self.merge_values([(c, self.discr_of(v)) for c, v in items]).e)) if True else None
            if isinstance(L.discr, int): L.discr = z3.IntVal(L.discr)
            groups = {}
            for c, v in items:
                if isinstance(v, Lazy): raise Unsupported('merge of lazy enum values')
                for i, f in enumerate(v.fields): groups.setdefault((names[v.variant], i), []).append((c, f))
            for key, its in groups.items(): L.kids[key] = self.merge_values(its)
            return L
        raise Unsupported('cannot merge values %r' % vals[:3])
    def call_closure(self, clo, args):
        c = clo
        while isinstance(c, Ref): c = self.deref_val(c)
        if isinstance(c, Opaque) or (isinstance(c, Agg) and not c.ty.startswith('{closure@')):
            return self.call(c.what if isinstance(c, Opaque) else c.ty, args)
        fn = self.closures.get(c.ty)
        if fn is None: raise Unsupported('closure body not found: ' + c.ty)
        p1 = fn.locals[fn.params[0]]
        self_arg = Ref(Cell(c)) if p1.startswith('&') else c
        return self.call_fn(fn, [self_arg] + args)
    def resolve_fn(self, callee):
        if callee in self.res_cache: return self.res_cache[callee]
        c = callee
        if c.endswith('>'):
            d = 0
            for i in range(len(c) - 1, -1, -1):
                if c[i] == '>' and not (i > 0 and c[i-1] in '-='): d += 1
                elif c[i] == '<':
                    d -= 1
                    if d == 0:
                        if c[:i].endswith('::'): c = c[:i-2]
                        break
        cands = []
        m = re.match(r'^<(.*) as (.*)>::(\w+)$', c)
        if m:
            ty, tr, meth = last_seg(m.group(1)), norm_trait(m.group(2)), m.group(3)
            if not m.group(1).strip().startswith('&'):
                cands = [k for k in self.by_method.get(meth, []) if IMPLS.get(impl_key(k)) == (tr, ty)]
                if not cands:
                    cands = [k for k in self.by_method.get(meth, []) if IMPLS.get(impl_key(k), (None, None))[1] == ty and (IMPLS[impl_key(k)][0] or '').split('<')[0] == tr.split('<')[0]]
        else:
            m = re.match(r'^(.*)::(\w+)$', c)
            if m:
                owner = m.group(1); meth = m.group(2)
                mi = re.search(r'<impl (.*)>$', owner)
                ty = last_seg(mi.group(1)) if mi else last_seg(owner)
                cands = [k for k in self.by_method.get(meth, []) if IMPLS.get(impl_key(k)) == (None, ty)]
                if not cands:   # free function / ctor
                    cands = [k for k in self.by_method.get(meth, []) if not impl_key(k) and (k == c or k.endswith('::' + c) or c.endswith('::' + k) or c.endswith(k))]
            else:
                cands = [k for k in self.by_method.get(c, []) if not impl_key(k)]
        if len(cands) > 1 and c in cands: cands = [c]          # an exact name wins over suffix matches
        if len(cands) != 1: raise Unsupported('unresolved call %s -> %s (stack %s)' % (callee, cands[:3], self.stack[-3:]))
        fn = self.fns[cands[0]][0]; self.res_cache[callee] = fn; return fn
    def fn_by_suffix(self, suffix):
        c = [v[0] for k, v in self.fns.items() if k.endswith(suffix)]
        if len(c) != 1: raise Unsupported('function %s: %d candidates' % (suffix, len(c)))
        return c[0]
