"""Library models: std / im / itertools / rayon functions whose MIR is not in the dumps.

Every model is a few lines; the patterns actually used by a run are reported in the evidence
(`Exec.used_models`).  Containers are abstract finite maps / lists with concrete structure.
"""
import re
import z3
from .core import *

def strip(ex, v):
    while isinstance(v, Ref): v = ex.deref_val(v)
    return v
vec_of = strip
def ordering(o): return Agg('Ordering', o, [])

# ------------------------------------------------------------------ Option / Result
def _is_some(ex, v): return ex.decide(ex.discr_of(v).e == 1)
def _is_ok(ex, v): return ex.decide(ex.discr_of(v).e == 0)
def m_unwrap(ex, callee, args):
    v = args[0]
    if _is_some(ex, v): return ex.field_of(v, 'Some', 0, 'T')
    raise Panic('called `Option::unwrap()` on a `None` value @ ' + ex.stack[-1][-60:])
def m_unwrap_or(ex, callee, args):
    v = args[0]
    if _is_some(ex, v): return ex.field_of(v, 'Some', 0, 'T')
    return args[1]
def m_unwrap_or_else(ex, callee, args):
    v = args[0]
    if _is_some(ex, v): return ex.field_of(v, 'Some', 0, 'T')
    return ex.call_closure(args[1], [])
def m_res_unwrap(ex, callee, args):
    v = args[0]
    if _is_ok(ex, v): return ex.field_of(v, 'Ok', 0, 'T')
    raise Panic('called `Result::unwrap()` on an `Err` value @ ' + ex.stack[-1][-60:])
def m_res_unwrap_or(ex, callee, args):
    v = args[0]
    if _is_ok(ex, v): return ex.field_of(v, 'Ok', 0, 'T')
    return args[1]
def m_res_unwrap_or_else(ex, callee, args):
    v = args[0]
    if _is_ok(ex, v): return ex.field_of(v, 'Ok', 0, 'T')
    return ex.call_closure(args[1], [ex.field_of(v, 'Err', 0, 'E')])
def m_expect(ex, callee, args):
    v = args[0]; isopt = bool(re.match(r'^(std::option::)?Option::<', callee))
    if ex.decide(ex.discr_of(v).e == (1 if isopt else 0)): return ex.field_of(v, 'Some' if isopt else 'Ok', 0, 'T')
    raise Panic('expect failed @ ' + ex.stack[-1][-60:])
def opt_parts(ex, v):
    """(present: z3 Bool, payload value or None) of an Option value that may be concrete or lazy"""
    if isinstance(v, Agg): return (v.variant == 1, v.fields[0] if v.variant == 1 else None)
    return (ex.discr_of(v).e == 1, ex.field_of(v, 'Some', 0, 'T'))
def m_opt_is(ex, callee, args):
    v = strip(ex, args[0]); d = ex.discr_of(v)
    want = {'is_some': 1, 'is_none': 0, 'is_ok': 0, 'is_err': 1}[callee.split('::')[-1]]
    return Scalar(d.e == want, 'bool')
def m_opt_copied(ex, callee, args):
    v = args[0]
    if _is_some(ex, v): return some(copy_val(ex.deref_val(ex.field_of(v, 'Some', 0, 'T'))))      # Option<&T> -> Option<T>: exactly one deref
    return NONE()
def m_opt_cloned(ex, callee, args):
    v = args[0]
    if _is_some(ex, v): return some(clone_val(ex.deref_val(ex.field_of(v, 'Some', 0, 'T'))))
    return NONE()
def m_opt_map(ex, callee, args):
    v = args[0]
    if _is_some(ex, v): return some(ex.call_closure(args[1], [ex.field_of(v, 'Some', 0, 'T')]))
    return NONE()
def m_opt_and_then(ex, callee, args):
    v = args[0]
    if _is_some(ex, v): return ex.call_closure(args[1], [ex.field_of(v, 'Some', 0, 'T')])
    return NONE()
def m_opt_map_or(ex, callee, args):
    v = args[0]
    if _is_some(ex, v): return ex.call_closure(args[2], [ex.field_of(v, 'Some', 0, 'T')])
    return args[1]
def m_opt_as_ref(ex, callee, args):
    r = args[0]; v = strip(ex, r)
    if _is_some(ex, v):
        if isinstance(v, Agg): return some(Ref(r.cell, r.proj + (('field', 'Some', 0, 'T'),)))
        return some(Ref(Cell(ex.field_of(v, 'Some', 0, 'T'))))
    return NONE()
def m_opt_take(ex, callee, args):
    r = args[0]; v = strip(ex, r); ex.write_ref(r, NONE()); return v
def m_res_map_err(ex, callee, args):
    v = args[0]
    if _is_ok(ex, v): return v if isinstance(v, Agg) else ok(ex.field_of(v, 'Ok', 0, 'T'))
    return err(ex.call_closure(args[1], [ex.field_of(v, 'Err', 0, 'E')]))
def m_res_map(ex, callee, args):
    v = args[0]
    if _is_ok(ex, v): return ok(ex.call_closure(args[1], [ex.field_of(v, 'Ok', 0, 'T')]))
    return v
def m_res_ok(ex, callee, args):
    v = args[0]
    if _is_ok(ex, v): return some(ex.field_of(v, 'Ok', 0, 'T'))
    return NONE()
def m_ok_or(ex, callee, args):
    v = args[0]
    if _is_some(ex, v): return ok(ex.field_of(v, 'Some', 0, 'T'))
    e = args[1]
    if 'ok_or_else' in callee: e = ex.call_closure(args[1], [])
    return err(e)
def m_try_branch(ex, callee, args):
    v = args[0]; d = ex.discr_of(v)
    if re.match(r'^<(std::option::)?Option<', callee):
        if ex.decide(d.e == 1): return Agg('ControlFlow', 0, [ex.field_of(v, 'Some', 0, 'T')])
        return Agg('ControlFlow', 1, [NONE()])
    if ex.decide(d.e == 0): return Agg('ControlFlow', 0, [ex.field_of(v, 'Ok', 0, 'T')])
    return Agg('ControlFlow', 1, [err(ex.field_of(v, 'Err', 0, 'E'))])
def m_from_residual(ex, callee, args):
    v = args[0]
    if isinstance(v, Agg) and v.ty == 'Option': return NONE()
    e = ex.field_of(v, 'Err', 0, 'E')
    return err(e if isinstance(e, StrVal) else StrVal('<err>'))
# ------------------------------------------------------------------ Arc / Box / clone / cmp
def m_arc_deref(ex, callee, args):
    r = args[0]; v = ex.deref_val(r)
    if isinstance(v, Lazy):
        inner = re.match(r'^(?:std::sync::)?Arc<(.*)>$', v.ty).group(1)
        if ('arc', 0) not in v.kids: v.kids[('arc', 0)] = Cell(ex.mk_lazy(inner, v.name + '.arc'))
        return Ref(v.kids[('arc', 0)])
    if isinstance(v, Agg) and v.ty == 'Arc': return Ref(v.fields[0])
    raise Unsupported('arc deref of %r' % v)
def m_arc_clone(ex, callee, args): return ex.deref_val(args[0])
def m_arc_new(ex, callee, args): return Agg('Arc', None, [Cell(args[0])])
def arc(v): return Agg('Arc', None, [Cell(v)])
def m_identity(ex, callee, args): return args[0]
def m_clone(ex, callee, args): return clone_val(strip(ex, args[0]))
def m_partial_ord(ex, callee, args):
    m = re.match(r'^<(.*) as PartialOrd>::(\w+)$', callee)
    o = ex.call('<%s as PartialOrd>::partial_cmp' % m.group(1), args)
    ordv = ex.field_of(o, 'Some', 0, 'std::cmp::Ordering')
    return boolv(ordv.variant in {'le': (-1, 0), 'lt': (-1,), 'ge': (0, 1), 'gt': (1,)}[m.group(2)])
def m_int_partial_cmp(ex, callee, args):
    a = strip(ex, args[0]); b = strip(ex, args[1])
    if ex.decide(a.e < b.e): o = -1
    elif ex.decide(a.e == b.e): o = 0
    else: o = 1
    return some(ordering(o))
def m_int_cmp(ex, callee, args): return m_int_partial_cmp(ex, callee, args).fields[0]
def m_int_rel(ex, callee, args):
    return ex.binop({'le': 'Le', 'lt': 'Lt', 'ge': 'Ge', 'gt': 'Gt'}[callee[-2:]], strip(ex, args[0]), strip(ex, args[1]))
def m_int_eq(ex, callee, args):
    a = strip(ex, args[0]); b = strip(ex, args[1])
    return Scalar(a.e == b.e if callee.endswith('eq') else a.e != b.e, 'bool')
def m_ref_eq(ex, callee, args):
    m = re.match(r'^<&(?:mut )?(.*?) as PartialEq(?:<.*>)?>::(eq|ne)$', callee)
    return ex.call('<%s as PartialEq>::%s' % (m.group(1), m.group(2)), [ex.deref_val(args[0]), ex.deref_val(args[1])])
def m_ne(ex, callee, args):
    ty = re.match(r'^<(.*) as PartialEq(?:<.*>)?>::ne$', callee).group(1)
    return Scalar(z_not(ex.call('<%s as PartialEq>::eq' % ty, args).e), 'bool')
def m_ordering_then(ex, callee, args):
    a = args[0]
    return a if a.variant != 0 else args[1]
def m_ordering_reverse(ex, callee, args): return ordering(-args[0].variant)
def m_ordering_is(ex, callee, args):
    a = args[0]; k = callee.split('::')[-1]
    return boolv({'is_eq': a.variant == 0, 'is_ne': a.variant != 0, 'is_lt': a.variant == -1, 'is_gt': a.variant == 1, 'is_le': a.variant <= 0, 'is_ge': a.variant >= 0}[k])
def m_ordering_eq(ex, callee, args):
    a = strip(ex, args[0]); b = strip(ex, args[1]); r = a.variant == b.variant
    return boolv(r if callee.endswith('eq') else not r)
def m_min_max(ex, callee, args):
    a, b = args; k = callee.split('::')[-1]
    if isinstance(a, Ref): a = strip(ex, a); b = strip(ex, b)
    lt = a.e < b.e
    # std: min returns a if a <= b ; max returns b if a <= b  (equal values indistinguishable for ints)
    return Scalar(z_ite(lt, a.e, b.e) if k == 'min' else z_ite(lt, b.e, a.e), a.ty)
def m_ord_min_max_generic(ex, callee, args):
    """<T as Ord>::min/max for non-integer T via the type's own cmp (std semantics: max returns other on Equal)"""
    m = re.match(r'^<(.*) as Ord>::(min|max)$', callee); a, b = args
    o = ex.call('<%s as Ord>::cmp' % m.group(1), [Ref(Cell(a)), Ref(Cell(b))]).variant
    if m.group(2) == 'min': return b if o == 1 else a        # min_by: Greater => other, else self
    return a if o == 1 else b                                  # max_by: Greater => self, else other
def m_panic(ex, callee, args): raise Panic('explicit panic @ ' + ex.stack[-1][-70:])
# ------------------------------------------------------------------ strings / fmt / io
def m_string_new(ex, callee, args): return StrVal('')
def m_string_push(ex, callee, args):
    r = args[0]; s = ex.deref_val(r); o = args[1]
    ex.write_ref(r, StrVal(s.text + (o.text if isinstance(o, StrVal) else '<s>'))); return UNIT
def m_string_is_empty(ex, callee, args): return boolv(strip(ex, args[0]).text == '')
def m_fmt(ex, callee, args): return StrVal('<fmt>')
def m_opaque(ex, callee, args): return Opaque(callee)
def m_unit(ex, callee, args): return UNIT
# ------------------------------------------------------------------ Vec / slice
def m_vec_len(ex, callee, args): return bv(len(vec_of(ex, args[0]).cells), 'usize')
def m_vec_deref(ex, callee, args): return Slice(vec_of(ex, args[0]).cells)
def m_vec_new(ex, callee, args): return VecVal([])
def m_vec_push(ex, callee, args): vec_of(ex, args[0]).cells.append(Cell(args[1])); return UNIT
def m_vec_pop(ex, callee, args):
    v = vec_of(ex, args[0]); return some(v.cells.pop().v) if v.cells else NONE()
def m_vec_is_empty(ex, callee, args): return boolv(len(vec_of(ex, args[0]).cells) == 0)
def m_vec_clear(ex, callee, args): del vec_of(ex, args[0]).cells[:]; return UNIT
def range_bounds(ex, rg, n):
    t = rg.ty
    if t == 'Range': a, b = rg.fields
    elif t == 'RangeFrom': a, b = rg.fields[0], bv(n, 'usize')
    elif t == 'RangeTo': a, b = bv(0, 'usize'), rg.fields[0]
    elif t == 'RangeFull': a, b = bv(0, 'usize'), bv(n, 'usize')
    elif t == 'RangeInclusive': a, b = rg.fields[0], Scalar(rg.fields[1].e + 1, 'usize')
    elif t == 'RangeToInclusive': a, b = bv(0, 'usize'), Scalar(rg.fields[0].e + 1, 'usize')
    else: raise Unsupported('range ' + t)
    lo = ex.concretize(a, 0, n + 2); hi = ex.concretize(b, 0, n + 2)
    if lo > hi: raise Panic('slice index starts at %d but ends at %d' % (lo, hi))
    if hi > n: raise Panic('range end index %d out of range for slice of length %d' % (hi, n))
    return lo, hi
def m_index(ex, callee, args):
    v = vec_of(ex, args[0]); i = args[1]
    if isinstance(i, Scalar):
        k = ex.concretize_or_oob(i, len(v.cells)); return Ref(v.cells[k])
    lo, hi = range_bounds(ex, i, len(v.cells))
    return Slice(v.cells[lo:hi])
def m_slice_first(ex, callee, args):
    c = vec_of(ex, args[0]).cells; return some(Ref(c[0])) if c else NONE()
def m_slice_last(ex, callee, args):
    c = vec_of(ex, args[0]).cells; return some(Ref(c[-1])) if c else NONE()
def m_slice_get(ex, callee, args):
    c = vec_of(ex, args[0]).cells; i = args[1]
    if not isinstance(i, Scalar):
        n = len(c); t = i.ty
        try: lo, hi = range_bounds(ex, i, n)
        except Panic: return NONE()
        return some(Slice(c[lo:hi]))
    k = conc(i)
    if k is None:
        for j in range(len(c)):
            if ex.decide(i.e == j): return some(Ref(c[j]))
        return NONE()
    return some(Ref(c[k])) if 0 <= k < len(c) else NONE()
def m_to_vec(ex, callee, args): return VecVal([Cell(clone_val(c.v)) for c in vec_of(ex, args[0]).cells])
def m_slice_is_empty(ex, callee, args): return boolv(len(vec_of(ex, args[0]).cells) == 0)
def _bsearch(ex, cells, cmpf):
    size = len(cells)
    if size == 0: return err(bv(0, 'usize'))
    base = 0
    while size > 1:
        half = size // 2; mid = base + half
        c = cmpf(cells[mid])
        base = base if c == 1 else mid
        size -= half
    c = cmpf(cells[base])
    if c == 0: return ok(bv(base, 'usize'))
    return err(bv(base + (1 if c == -1 else 0), 'usize'))
def m_binary_search_by(ex, callee, args):
    f = args[1]
    return _bsearch(ex, vec_of(ex, args[0]).cells, lambda c: ex.call_closure(f, [Ref(c)]).variant)
def m_binary_search(ex, callee, args):
    key = strip(ex, args[1]); ty = re.search(r'impl \[(.*)\]>', callee).group(1)
    return _bsearch(ex, vec_of(ex, args[0]).cells, lambda c: ex.call('<%s as Ord>::cmp' % ty, [Ref(c), Ref(Cell(key))]).variant)
def m_vec_extend(ex, callee, args):
    v = vec_of(ex, args[0]); it = to_iter(ex, args[1])
    while True:
        x = it.next(ex)
        if x is None: break
        v.cells.append(Cell(copy_val(ex.deref_val(x)) if isinstance(x, Ref) and 'Extend<&' in callee else x))
    return UNIT
def m_vec_extend_from_slice(ex, callee, args):
    v = vec_of(ex, args[0])
    for c in list(vec_of(ex, args[1]).cells): v.cells.append(Cell(clone_val(c.v)))
    return UNIT
def m_vec_append(ex, callee, args):
    v = vec_of(ex, args[0]); o = vec_of(ex, args[1]); v.cells.extend(o.cells); o.cells = []; return UNIT
def m_vec_splice(ex, callee, args):
    v = vec_of(ex, args[0]); lo, hi = range_bounds(ex, args[1], len(v.cells)); it = to_iter(ex, args[2]); new = []
    while True:
        x = it.next(ex)
        if x is None: break
        new.append(Cell(x))
    removed = v.cells[lo:hi]; v.cells[lo:hi] = new
    return ListIter([c.v for c in removed])
def m_vec_drain(ex, callee, args):
    v = vec_of(ex, args[0]); lo, hi = range_bounds(ex, args[1], len(v.cells))
    removed = v.cells[lo:hi]; v.cells[lo:hi] = []
    return ListIter([c.v for c in removed])
def m_vec_insert(ex, callee, args):
    v = vec_of(ex, args[0]); n = len(v.cells); i = args[1]; k = conc(i)
    if k is None:
        k = None
        for j in range(n + 1):
            if ex.decide(i.e == j): k = j; break
        if k is None: raise Panic('insertion index out of bounds')
    elif k > n: raise Panic('insertion index (is %d) should be <= len (is %d)' % (k, n))
    v.cells.insert(k, Cell(args[2])); return UNIT
def m_vec_remove(ex, callee, args):
    v = vec_of(ex, args[0]); k = ex.concretize_or_oob(args[1], len(v.cells)); return v.cells.pop(k).v
def m_vec_swap_remove(ex, callee, args):
    v = vec_of(ex, args[0]); k = ex.concretize_or_oob(args[1], len(v.cells))
    x = v.cells[k].v; last = v.cells.pop()
    if k < len(v.cells): v.cells[k] = last
    return x
def m_vec_truncate(ex, callee, args):
    v = vec_of(ex, args[0]); k = ex.concretize(args[1], 0, len(v.cells) + 1)
    del v.cells[k:]; return UNIT
def m_split_off(ex, callee, args):
    v = vec_of(ex, args[0]); n = len(v.cells); i = args[1]; k = conc(i)
    if k is None:
        for j in range(n + 1):
            if ex.decide(i.e == j): k = j; break
        if k is None: raise Panic('split_off index out of bounds')
    elif k > n: raise Panic('`at` split index (is %d) should be <= len (is %d)' % (k, n))
    tail = v.cells[k:]; del v.cells[k:]; return VecVal(tail)
def m_retain(ex, callee, args):
    v = vec_of(ex, args[0]); keep = []
    for c in list(v.cells):
        if ex.decide(ex.call_closure(args[1], [Ref(c)]).e): keep.append(c)
    v.cells[:] = keep; return UNIT
def m_vec_contains(ex, callee, args):
    v = vec_of(ex, args[0]); key = strip(ex, args[1])
    for c in v.cells:
        if ex.decide(val_eq(ex, c.v, key)): return TRUE
    return FALSE
def m_rotate_left(ex, callee, args):
    v = vec_of(ex, args[0]); k = ex.concretize(args[1], 0, len(v.cells) + 1)
    v.cells[:] = v.cells[k:] + v.cells[:k]; return UNIT
def m_reverse(ex, callee, args):
    v = vec_of(ex, args[0]); v.cells.reverse(); return UNIT
def m_vec_swap(ex, callee, args):
    v = vec_of(ex, args[0]); n = len(v.cells); i = ex.concretize_or_oob(args[1], n); j = ex.concretize_or_oob(args[2], n)
    v.cells[i], v.cells[j] = v.cells[j], v.cells[i]; return UNIT
def m_vec_from_elem(ex, callee, args):
    n = ex.concretize(args[1], 0, 64); return VecVal([Cell(clone_val(args[0])) for _ in range(n)])
def m_dedup(ex, callee, args):
    v = vec_of(ex, args[0]); out = []
    for c in v.cells:
        if out and ex.decide(val_eq(ex, out[-1].v, c.v)): continue
        out.append(c)
    v.cells[:] = out; return UNIT
def sort_model(ex, cells, less):
    """stable insertion sort with forking comparisons (any stable comparison sort yields the same result for a consistent order)"""
    out = []
    for c in cells:
        i = len(out)
        while i > 0 and less(c, out[i-1]): i -= 1
        out.insert(i, c)
    cells[:] = out
def _key_less(ex, ka, kb):
    if isinstance(ka, Scalar): return ex.decide(ka.e < kb.e)
    if ka.ty == 'tuple':
        for x, y in zip(ka.fields, kb.fields):
            if _key_less(ex, x, y): return True
            if _key_less(ex, y, x): return False
        return False
    o = ex.call('<%s as Ord>::cmp' % ka.ty, [Ref(Cell(ka)), Ref(Cell(kb))]); return o.variant < 0
def m_sort_by_key(ex, callee, args):
    v = vec_of(ex, args[0]); f = args[1]; keys = {}
    def key(c):
        if id(c) not in keys: keys[id(c)] = ex.call_closure(f, [Ref(c)])
        return keys[id(c)]
    sort_model(ex, v.cells, lambda a, b: _key_less(ex, key(a), key(b))); return UNIT
def m_sort_by(ex, callee, args):
    v = vec_of(ex, args[0]); f = args[1]
    sort_model(ex, v.cells, lambda a, b: ex.call_closure(f, [Ref(a), Ref(b)]).variant < 0); return UNIT
def m_sort(ex, callee, args):
    v = vec_of(ex, args[0]); sort_model(ex, v.cells, lambda a, b: _key_less(ex, a.v, b.v)); return UNIT
def m_box_vec(ex, callee, args):
    b = args[0]
    if isinstance(b, Lazy):
        nn = ex.field_of(ex.field_of(b, None, 0, 'Unique<X>'), None, 0, 'std::ptr::NonNull<X>')
        mu = ex.deref_val(nn)
        arr = ex.field_of(ex.field_of(ex.field_of(mu, None, 1, 'M'), None, 0, 'D'), None, 0, 'A')
        return VecVal(list(arr.cells))
    if isinstance(b, VecVal): return b
    return b
# ------------------------------------------------------------------ iterators
class It:
    def next(self, ex): raise NotImplementedError
class ListIter(It):
    def __init__(self, items): self.items = list(items); self.i = 0
    def next(self, ex):
        if self.i >= len(self.items): return None
        self.i += 1; return self.items[self.i - 1]
    def next_back(self, ex):
        if self.i >= len(self.items): return None
        return self.items.pop()
class RangeIter(It):
    def __init__(self, a, b, incl=False): self.a = a; self.b = b; self.incl = incl; self.n = 0
    def next(self, ex):
        if ex.decide(self.a.e <= self.b.e if self.incl else self.a.e < self.b.e):
            self.n += 1
            if self.n > ex.loop_budget:
                raise Unsupported('LOOP-BUDGET: range loop exceeded %d iterations (range ..%s)' % (ex.loop_budget, self.b.e))
            x = self.a; self.a = Scalar(self.a.e + 1 if is_c(self.a.e) else norm(z3.simplify(self.a.e + 1)), self.a.ty); return x
        return None
    def next_back(self, ex):
        if ex.decide(self.a.e < self.b.e):
            self.b = Scalar(self.b.e - 1 if is_c(self.b.e) else norm(z3.simplify(self.b.e - 1)), self.b.ty); return self.b
        return None
class MapIt(It):
    def __init__(self, inner, f): self.inner = inner; self.f = f
    def next(self, ex):
        x = self.inner.next(ex)
        return None if x is None else ex.call_closure(self.f, [x])
    def next_back(self, ex):
        x = self.inner.next_back(ex)
        return None if x is None else ex.call_closure(self.f, [x])
class FilterIt(It):
    def __init__(self, inner, f): self.inner = inner; self.f = f
    def next(self, ex):
        while True:
            x = self.inner.next(ex)
            if x is None: return None
            if ex.decide(ex.call_closure(self.f, [Ref(Cell(x))]).e): return x
class FilterMapIt(It):
    def __init__(self, inner, f): self.inner = inner; self.f = f
    def next(self, ex):
        while True:
            x = self.inner.next(ex)
            if x is None: return None
            r = ex.call_closure(self.f, [x])
            if ex.decide(ex.discr_of(r).e == 1): return ex.field_of(r, 'Some', 0, 'T')
class MapWhileIt(It):
    def __init__(self, inner, f): self.inner = inner; self.f = f; self.done = False
    def next(self, ex):
        if self.done: return None
        x = self.inner.next(ex)
        if x is None: return None
        r = ex.call_closure(self.f, [x])
        if ex.decide(ex.discr_of(r).e == 1): return ex.field_of(r, 'Some', 0, 'T')
        self.done = True; return None
class TakeWhileIt(It):
    def __init__(self, inner, f): self.inner = inner; self.f = f; self.done = False
    def next(self, ex):
        if self.done: return None
        x = self.inner.next(ex)
        if x is None: return None
        if ex.decide(ex.call_closure(self.f, [Ref(Cell(x))]).e): return x
        self.done = True; return None
class SkipWhileIt(It):
    def __init__(self, inner, f): self.inner = inner; self.f = f; self.started = False
    def next(self, ex):
        while True:
            x = self.inner.next(ex)
            if x is None: return None
            if self.started: return x
            if not ex.decide(ex.call_closure(self.f, [Ref(Cell(x))]).e): self.started = True; return x
class CopiedIt(It):
    def __init__(self, inner): self.inner = inner
    def next(self, ex):
        x = self.inner.next(ex); return None if x is None else clone_val(ex.deref_val(x))
    def next_back(self, ex):
        x = self.inner.next_back(ex); return None if x is None else clone_val(ex.deref_val(x))
class TakeIt(It):
    def __init__(self, inner, n): self.inner = inner; self.n = n
    def next(self, ex):
        if self.n <= 0: return None
        self.n -= 1; return self.inner.next(ex)
class SkipIt(It):
    def __init__(self, inner, n): self.inner = inner; self.n = n
    def next(self, ex):
        while self.n > 0:
            self.n -= 1
            if self.inner.next(ex) is None: self.n = 0; return None
        return self.inner.next(ex)
class StepByIt(It):
    def __init__(self, inner, n): self.inner = inner; self.n = n; self.first = True
    def next(self, ex):
        if self.first: self.first = False; return self.inner.next(ex)
        for _ in range(self.n - 1):
            if self.inner.next(ex) is None: return None
        return self.inner.next(ex)
class EnumIt(It):
    def __init__(self, inner): self.inner = inner; self.i = 0
    def next(self, ex):
        x = self.inner.next(ex)
        if x is None: return None
        self.i += 1; return tup(bv(self.i - 1, 'usize'), x)
class ChainIt(It):
    def __init__(self, a, b): self.a = a; self.b = b
    def next(self, ex):
        if self.a is not None:
            x = self.a.next(ex)
            if x is not None: return x
            self.a = None
        return self.b.next(ex)
class ZipIt(It):
    def __init__(self, a, b): self.a = a; self.b = b
    def next(self, ex):
        x = self.a.next(ex)
        if x is None: return None
        y = self.b.next(ex)
        if y is None: return None
        return tup(x, y)
class RevIt(It):
    def __init__(self, inner):
        self.inner = inner
    def next(self, ex):
        if hasattr(self.inner, 'next_back'): return self.inner.next_back(ex)
        raise Unsupported('rev of %r' % self.inner)
class WindowsIt(It):
    def __init__(self, inner): self.inner = inner; self.prev = None
    def next(self, ex):
        if self.prev is None:
            self.prev = self.inner.next(ex)
            if self.prev is None: return None
        x = self.inner.next(ex)
        if x is None: return None
        r = tup(self.prev, x); self.prev = x; return r
class CircWindowsIt(It):
    """itertools circular_tuple_windows::<(T,T)>: len items, (a_i, a_{i+1 mod n})"""
    def __init__(self, inner): self.inner = inner; self.items = None; self.i = 0
    def next(self, ex):
        if self.items is None:
            self.items = []
            while True:
                x = self.inner.next(ex)
                if x is None: break
                self.items.append(x)
        n = len(self.items)
        if self.i >= n: return None
        r = tup(self.items[self.i], self.items[(self.i + 1) % n]); self.i += 1; return r
class FlatMapIt(It):
    def __init__(self, inner, f): self.inner = inner; self.f = f; self.cur = None; self.outer_steps = 0
    def next(self, ex):
        while True:
            if self.cur is None:
                x = self.inner.next(ex)
                if x is None: return None
                self.outer_steps += 1
                if self.outer_steps > ex.loop_budget:
                    raise Unsupported('LOOP-BUDGET: flat_map outer loop exceeded %d iterations' % ex.loop_budget)
                self.cur = to_iter(ex, ex.call_closure(self.f, [x]) if self.f is not None else x)
            y = self.cur.next(ex)
            if y is not None: return y
            self.cur = None
class PeekIt(It):
    def __init__(self, inner): self.inner = inner; self.buf = []
    def next(self, ex):
        if self.buf: return self.buf.pop(0)
        return self.inner.next(ex)
    def peek(self, ex):
        if not self.buf:
            x = self.inner.next(ex)
            if x is None: return None
            self.buf.append(x)
        return self.buf[0]
def to_iter(ex, v):
    byref = isinstance(v, Ref)
    while isinstance(v, Ref): v = ex.deref_val(v)
    if isinstance(v, It): return v
    if isinstance(v, VecVal): return ListIter([Ref(c) for c in v.cells] if byref else [c.v for c in v.cells])       # (&Vec).into_iter() / Vec::into_iter()
    if byref and isinstance(v, MapVal): return ListIter([tup(Ref(Cell(k)), Ref(c)) for k, c in map_entries(ex, v)])
    if isinstance(v, Slice): return ListIter([Ref(c) for c in v.cells])
    if isinstance(v, Agg) and v.ty == 'Range': return RangeIter(v.fields[0], v.fields[1])
    if isinstance(v, Agg) and v.ty == 'RangeInclusive': return RangeIter(v.fields[0], v.fields[1], True)
    if isinstance(v, Agg) and v.ty == 'Option': return ListIter(v.fields[:1] if v.variant == 1 else [])
    if isinstance(v, MapVal): return ListIter([tup(k, c.v) for k, c in map_entries(ex, v)])
    raise Unsupported('to_iter %r' % v)
def m_slice_iter(ex, callee, args): return ListIter([Ref(c) for c in vec_of(ex, args[0]).cells])
def m_into_iter(ex, callee, args):
    v = args[0]
    if isinstance(v, Ref):
        t = strip(ex, v)
        if isinstance(t, VecVal): return ListIter([Ref(c) for c in t.cells])
        if isinstance(t, MapVal): return ListIter([tup(Ref(Cell(k)), Ref(c)) for k, c in map_entries(ex, t)])
    return to_iter(ex, v)
def m_it_next(ex, callee, args):
    it = strip(ex, args[0])
    x = to_iter(ex, it).next(ex) if not isinstance(it, It) else it.next(ex)
    return NONE() if x is None else some(x)
def m_it_next_back(ex, callee, args):
    it = strip(ex, args[0]); x = it.next_back(ex)
    return NONE() if x is None else some(x)
def m_it_map(ex, callee, args): return MapIt(to_iter(ex, args[0]), args[1])
def m_it_filter(ex, callee, args): return FilterIt(to_iter(ex, args[0]), args[1])
def m_it_copied(ex, callee, args): return CopiedIt(to_iter(ex, args[0]))
def m_it_take(ex, callee, args): return TakeIt(to_iter(ex, args[0]), ex.concretize(args[1], 0, 64))
def m_it_skip(ex, callee, args): return SkipIt(to_iter(ex, args[0]), ex.concretize(args[1], 0, 64))
def m_it_enumerate(ex, callee, args): return EnumIt(to_iter(ex, args[0]))
def m_it_chain(ex, callee, args): return ChainIt(to_iter(ex, args[0]), to_iter(ex, args[1]))
def m_it_windows(ex, callee, args): return WindowsIt(to_iter(ex, args[0]))
def m_it_any(ex, callee, args):
    it = to_iter(ex, args[0])
    while True:
        x = it.next(ex)
        if x is None: return FALSE
        if ex.decide(ex.call_closure(args[1], [x]).e): return TRUE
def m_it_all(ex, callee, args):
    it = to_iter(ex, args[0])
    while True:
        x = it.next(ex)
        if x is None: return TRUE
        if not ex.decide(ex.call_closure(args[1], [x]).e): return FALSE
def m_it_fold(ex, callee, args):
    it = to_iter(ex, args[0]); acc = args[1]
    while True:
        x = it.next(ex)
        if x is None: return acc
        acc = ex.call_closure(args[2], [acc, x])
def m_it_for_each(ex, callee, args):
    it = to_iter(ex, args[0])
    while True:
        x = it.next(ex)
        if x is None: return UNIT
        ex.call_closure(args[1], [x])
def m_it_sum(ex, callee, args):
    m = re.search(r'::sum::<(.*)>$', callee); t = m.group(1)
    if t in INT_W:
        it = to_iter(ex, args[0]); acc = bv(0, t)
        while True:
            x = it.next(ex)
            if x is None: return acc
            x = strip(ex, x)
            r = ex.binop('AddWithOverflow', acc, x)
            if ex.overflow_checks:
                if ex.decide(r.fields[1].e): raise Panic('attempt to add with overflow (Iterator::sum)')
            acc = r.fields[0]
    return ex.call('<%s as Sum>::sum' % t, [to_iter(ex, args[0])])
def m_it_collect(ex, callee, args):
    it = to_iter(ex, args[0]); out = []
    while True:
        x = it.next(ex)
        if x is None: return VecVal([Cell(v) for v in out])
        out.append(x)
def m_it_position(ex, callee, args):
    it = to_iter(ex, args[0]); i = 0
    while True:
        x = it.next(ex)
        if x is None: return NONE()
        if ex.decide(ex.call_closure(args[1], [x]).e): return some(bv(i, 'usize'))
        i += 1
def m_it_find(ex, callee, args):
    it = to_iter(ex, args[0])
    while True:
        x = it.next(ex)
        if x is None: return NONE()
        if ex.decide(ex.call_closure(args[1], [Ref(Cell(x))]).e): return some(x)
def m_it_find_map(ex, callee, args):
    it = to_iter(ex, args[0])
    while True:
        x = it.next(ex)
        if x is None: return NONE()
        r = ex.call_closure(args[1], [x])
        if ex.decide(ex.discr_of(r).e == 1): return r if isinstance(r, Agg) else some(ex.field_of(r, 'Some', 0, 'T'))
def m_it_last(ex, callee, args):
    it = to_iter(ex, args[0]); last = None
    while True:
        x = it.next(ex)
        if x is None: return NONE() if last is None else some(last)
        last = x
def m_it_nth(ex, callee, args):
    it = strip(ex, args[0]); n = ex.concretize(args[1], 0, 64)
    for _ in range(n):
        if it.next(ex) is None: return NONE()
    x = it.next(ex); return NONE() if x is None else some(x)
def m_it_count(ex, callee, args):
    it = to_iter(ex, args[0]); n = 0
    while it.next(ex) is not None: n += 1
    return bv(n, 'usize')
def _extreme_by(ex, it, better):
    best = None
    while True:
        x = it.next(ex)
        if x is None: return NONE() if best is None else some(best)
        if best is None or better(best, x): best = x
def m_it_min_by(ex, callee, args):   # std: min_by keeps the first of equal elements
    f = args[1]
    return _extreme_by(ex, to_iter(ex, args[0]), lambda best, x: ex.call_closure(f, [Ref(Cell(best)), Ref(Cell(x))]).variant == 1)
def m_it_max_by(ex, callee, args):   # std: max_by keeps the last of equal elements
    f = args[1]
    return _extreme_by(ex, to_iter(ex, args[0]), lambda best, x: ex.call_closure(f, [Ref(Cell(best)), Ref(Cell(x))]).variant != 1)
def m_it_min_by_key(ex, callee, args):
    f = args[1]
    return _extreme_by(ex, to_iter(ex, args[0]), lambda best, x: _key_less(ex, ex.call_closure(f, [Ref(Cell(x))]), ex.call_closure(f, [Ref(Cell(best))])))
def m_it_max_by_key(ex, callee, args):
    f = args[1]
    return _extreme_by(ex, to_iter(ex, args[0]), lambda best, x: not _key_less(ex, ex.call_closure(f, [Ref(Cell(x))]), ex.call_closure(f, [Ref(Cell(best))])))
def m_it_max(ex, callee, args):
    it = to_iter(ex, args[0]); best = None
    while True:
        x = it.next(ex)
        if x is None: break
        if isinstance(x, Scalar): best = x if best is None else Scalar(z_ite(x.e >= best.e, x.e, best.e), x.ty)
        else: best = x if best is None or not _key_less(ex, x, best) else best
    return some(best) if best is not None else NONE()
def m_it_min(ex, callee, args):
    it = to_iter(ex, args[0]); best = None
    while True:
        x = it.next(ex)
        if x is None: break
        if isinstance(x, Scalar): best = x if best is None else Scalar(z_ite(x.e < best.e, x.e, best.e), x.ty)
        else: best = x if best is None or _key_less(ex, x, best) else best
    return some(best) if best is not None else NONE()
def m_it_contains(ex, callee, args):
    it = to_iter(ex, args[0]); key = strip(ex, args[1])
    while True:
        x = it.next(ex)
        if x is None: return FALSE
        if ex.decide(val_eq(ex, strip(ex, x), key)): return TRUE
def m_it_unzip(ex, callee, args):
    it = to_iter(ex, args[0]); a = []; b = []
    while True:
        x = it.next(ex)
        if x is None: return tup(VecVal(a), VecVal(b))
        a.append(Cell(x.fields[0])); b.append(Cell(x.fields[1]))
def m_peekable(ex, callee, args): return PeekIt(to_iter(ex, args[0]))
def m_peek(ex, callee, args):
    it = strip(ex, args[0]); x = it.peek(ex)
    return NONE() if x is None else some(Ref(Cell(x)))
# ------------------------------------------------------------------ maps (std HashMap, im HashMap/HashSet, BTreeMap)
def val_eq(ex, a, b):
    a = strip(ex, a); b = strip(ex, b)
    if isinstance(a, Scalar): return a.e == b.e
    if isinstance(a, Agg) and isinstance(b, Agg):
        if a.variant != b.variant or len(a.fields) != len(b.fields): return False
        return z_and(*[val_eq(ex, x, y) for x, y in zip(a.fields, b.fields)]) if a.fields else True
    if a is b: return True
    if isinstance(a, Lazy) and isinstance(b, Lazy):
        en = last_seg(a.ty); da = ex.discr_of(a).e; db = ex.discr_of(b).e; conj = [da == db]
        for key in set(a.kids) | set(b.kids):
            if key[0] == 'arc': raise Unsupported('val_eq lazy arc')
            vi = ENUMS.get(en, []).index(key[0]) if key[0] in ENUMS.get(en, []) else None
            fa = ex.field_of(a, key[0], key[1], 'T'); fb = ex.field_of(b, key[0], key[1], 'T')
            e = val_eq(ex, fa, fb)
            conj.append(e if vi is None else z_or(z_not(da == vi), e))
        return z_and(*conj)
    if isinstance(a, (Agg, Lazy)) and isinstance(b, (Agg, Lazy)):
        en = last_seg((a if isinstance(a, Lazy) else b).ty)
        da = ex.discr_of(a).e; db = ex.discr_of(b).e
        conj = [da == db]
        # payload comparison for the variants that carry data: materialise lazily
        known = a if isinstance(a, Agg) else b
        other = b if known is a else a
        if isinstance(known, Agg):
            vname = ENUMS.get(en, [None] * 8)[known.variant] if known.variant is not None else None
            for i, f in enumerate(known.fields):
                conj.append(z_or(z_not(da == db), val_eq(ex, f, ex.field_of(other, vname, i, f.ty if isinstance(f, Scalar) else 'T'))))
            return z_and(*conj)
        raise Unsupported('val_eq lazy/lazy')
    if isinstance(a, StrVal) and isinstance(b, StrVal): return a.text == b.text
    raise Unsupported('val_eq %r %r' % (a, b))
def map_entries(ex, mp):
    """entries in iteration order: insertion order for hash maps (iteration order of hash maps is unspecified;
    obligations must not depend on it), key order (forking on the real Ord) for BTreeMaps"""
    if getattr(mp, 'ordered', None):
        ents = list(mp.entries)
        sort_model(ex, ents, lambda a, b: cmp_keys(ex, a[0], b[0], mp.ordered) < 0)
        return ents
    return list(mp.entries)
def cmp_keys(ex, a, b, tys):
    """Ord on keys via the element types' real Ord::cmp from MIR; tys = list of type names (tuple keys) or [ty]"""
    if isinstance(a, Agg) and a.ty == 'tuple':
        for x, y, t in zip(a.fields, b.fields, tys):
            o = ex.call('<%s as Ord>::cmp' % t, [Ref(Cell(x)), Ref(Cell(y))]).variant
            if o != 0: return o
        return 0
    if isinstance(a, Scalar):
        if ex.decide(a.e < b.e): return -1
        return 0 if ex.decide(a.e == b.e) else 1
    return ex.call('<%s as Ord>::cmp' % tys[0], [Ref(Cell(a)), Ref(Cell(b))]).variant
def m_map_new(ex, callee, args): return MapVal(name='map')
def m_btree_new(ex, callee, args):
    m = MapVal(name='btree'); m.ordered = _btree_key_types(callee); return m
def _btree_key_types(callee):
    m = re.search(r'BTreeMap::?<(.*)>', callee)
    if not m: return ['?']
    k = split_top(m.group(1))[0]
    if k.startswith('('): return [last_seg(x) for x in split_top(k[1:-1])]
    return [last_seg(k)]
def m_map_get(ex, callee, args):
    mp = strip(ex, args[0]); key = strip(ex, args[1])
    if not isinstance(mp, MapVal): raise Unsupported('map get on %r' % mp)
    for k, c in mp.entries:
        if ex.decide(val_eq(ex, key, k)): return some(Ref(c))
    return NONE()
def m_map_contains(ex, callee, args): return boolv(m_map_get(ex, callee, args).variant == 1)
def m_map_index(ex, callee, args):
    r = m_map_get(ex, callee, args)
    if r.variant == 1: return r.fields[0]
    raise Panic('map index: key not found @ ' + ex.stack[-1][-60:])
def m_map_insert(ex, callee, args):
    mp = strip(ex, args[0])
    for k, c in mp.entries:
        if ex.decide(val_eq(ex, k, args[1])): old = c.v; c.v = args[2]; return some(old)
    mp.entries.append((args[1], Cell(args[2]))); return NONE()
def m_map_remove(ex, callee, args):
    mp = strip(ex, args[0]); key = strip(ex, args[1])
    for i, (k, c) in enumerate(mp.entries):
        if ex.decide(val_eq(ex, key, k)): del mp.entries[i]; return some(c.v)
    return NONE()
def m_map_len(ex, callee, args): return bv(len(strip(ex, args[0]).entries), 'usize')
def m_map_is_empty(ex, callee, args): return boolv(len(strip(ex, args[0]).entries) == 0)
def m_map_values(ex, callee, args):
    mp = strip(ex, args[0]); return ListIter([Ref(c) for k, c in map_entries(ex, mp)])
def m_map_keys(ex, callee, args):
    mp = strip(ex, args[0]); return ListIter([Ref(Cell(k)) for k, c in map_entries(ex, mp)])
def m_map_iter(ex, callee, args):
    mp = strip(ex, args[0]); return ListIter([tup(Ref(Cell(k)), Ref(c)) for k, c in map_entries(ex, mp)])
def m_map_into_values(ex, callee, args):
    mp = strip(ex, args[0]); return ListIter([c.v for k, c in map_entries(ex, mp)])
def m_collect_map(ex, callee, args):
    it = to_iter(ex, args[0]); mp = MapVal(name='collected')
    if 'BTreeMap' in callee.split('collect::')[-1]: mp.ordered = _btree_key_types(callee.split('collect::')[-1])
    while True:
        x = it.next(ex)
        if x is None: return mp
        m_map_insert(ex, callee, [Ref(Cell(mp)), x.fields[0], x.fields[1]])
def m_collect_set(ex, callee, args):
    it = to_iter(ex, args[0]); st = MapVal(name='set')
    while True:
        x = it.next(ex)
        if x is None: return st
        m_set_insert(ex, callee, [Ref(Cell(st)), x])
class Entry:
    def __init__(self, mp, key): self.mp = mp; self.key = key
def m_entry(ex, callee, args): return Entry(strip(ex, args[0]), args[1])
def _entry_or(ex, e, mk):
    for k, c in e.mp.entries:
        if ex.decide(val_eq(ex, k, e.key)): return Ref(c)
    c = Cell(mk()); e.mp.entries.append((e.key, c)); return Ref(c)
def m_or_insert(ex, callee, args): return _entry_or(ex, args[0], lambda: args[1])
def m_or_insert_with(ex, callee, args): return _entry_or(ex, args[0], lambda: ex.call_closure(args[1], []))
def m_or_default_vec(ex, callee, args): return _entry_or(ex, args[0], lambda: VecVal([]))
def m_set_insert(ex, callee, args):
    st = strip(ex, args[0])
    for k, c in st.entries:
        if ex.decide(val_eq(ex, k, args[1])): return some(k) if 'im::' in callee else FALSE
    st.entries.append((args[1], Cell(UNIT))); return NONE() if 'im::' in callee else TRUE
def m_set_remove(ex, callee, args):
    st = strip(ex, args[0]); key = strip(ex, args[1])
    for i, (k, c) in enumerate(st.entries):
        if ex.decide(val_eq(ex, k, key)): del st.entries[i]; return some(k) if 'im::' in callee else TRUE
    return NONE() if 'im::' in callee else FALSE
def m_set_iter(ex, callee, args):
    st = strip(ex, args[0]); return ListIter([Ref(Cell(k)) for k, c in st.entries])
def m_btree_range(ex, callee, args):
    mp = strip(ex, args[0]); rg = args[1]
    tys = getattr(mp, 'ordered', None) or _btree_key_types(callee)
    out = []
    for k, c in map_entries(ex, mp):
        okk = True
        if rg.ty == 'RangeTo': okk = cmp_keys(ex, k, rg.fields[0], tys) < 0
        elif rg.ty == 'RangeToInclusive': okk = cmp_keys(ex, k, rg.fields[0], tys) <= 0
        elif rg.ty == 'RangeFrom': okk = cmp_keys(ex, k, rg.fields[0], tys) >= 0
        elif rg.ty == 'Range': okk = cmp_keys(ex, k, rg.fields[0], tys) >= 0 and cmp_keys(ex, k, rg.fields[1], tys) < 0
        elif rg.ty == 'RangeInclusive': okk = cmp_keys(ex, k, rg.fields[0], tys) >= 0 and cmp_keys(ex, k, rg.fields[1], tys) <= 0
        elif rg.ty == 'RangeFull': okk = True
        else: raise Unsupported('btree range ' + rg.ty)
        if okk: out.append(tup(Ref(Cell(k)), Ref(c)))
    return ListIter(out)
# ------------------------------------------------------------------ numerics
def m_div_ceil(ex, callee, args):
    a, b = args
    if conc(b) is None: raise Unsupported('div_ceil by a symbolic value')
    if conc(b) == 0: raise Panic('attempt to divide by zero')
    if is_c(a.e): return Scalar(-(-a.e // b.e), a.ty)
    return Scalar(norm(z3.simplify((a.e + b.e - 1) / b.e)), a.ty)
def m_saturating_sub(ex, callee, args):
    a, b = args; lo = ty_range(a.ty)[0]
    d = a.e - b.e
    return Scalar(z_ite(d < lo, lo, d), a.ty)
def m_saturating_add(ex, callee, args):
    a, b = args; hi = ty_range(a.ty)[1]
    d = a.e + b.e
    return Scalar(z_ite(d > hi, hi, d), a.ty)
def m_checked(ex, callee, args):
    op = {'checked_mul': 'Mul', 'checked_add': 'Add', 'checked_sub': 'Sub'}[callee.split('::')[-1]]
    r = ex.binop(op + 'WithOverflow', args[0], args[1])
    if ex.decide(r.fields[1].e): return NONE()
    return some(r.fields[0])
def m_abs(ex, callee, args):
    a = args[0]; return Scalar(z_ite(a.e < 0, -a.e, a.e), a.ty)
def m_once(ex, callee, args): return ListIter([args[0]])
def m_empty_iter(ex, callee, args): return ListIter([])
def m_mem_swap(ex, callee, args):
    a, b = args; va = ex.deref_val(a); vb = ex.deref_val(b); ex.write_ref(a, vb); ex.write_ref(b, va); return UNIT
def m_mem_replace(ex, callee, args):
    a = args[0]; va = ex.deref_val(a); ex.write_ref(a, args[1]); return va
def m_mem_take_vec(ex, callee, args):
    a = args[0]; va = ex.deref_val(a); ex.write_ref(a, VecVal([])); return va

INTS = r'(isize|usize|u64|u32|u16|u8|i64|i32)'
STD_MODELS = [
    (r'^(std::option::)?Option::<.*>::unwrap$', m_unwrap),
    (r'^(std::option::)?Option::<.*>::unwrap_or$', m_unwrap_or),
    (r'^(std::option::)?Option::<.*>::unwrap_or_else::<.*>$', m_unwrap_or_else),
    (r'^(std::result::)?Result::<.*>::unwrap$', m_res_unwrap),
    (r'^(std::result::)?Result::<.*>::unwrap_or$', m_res_unwrap_or),
    (r'^(std::result::)?Result::<.*>::unwrap_or_else::<.*>$', m_res_unwrap_or_else),
    (r'^((std::option::)?Option|(std::result::)?Result)::<.*>::expect$', m_expect),
    (r'^((std::option::)?Option|(std::result::)?Result)::<.*>::(is_some|is_none|is_ok|is_err)$', m_opt_is),
    (r'^(std::result::)?Result::<.*>::map_err::<.*>$', m_res_map_err),
    (r'^(std::result::)?Result::<.*>::map::<.*>$', m_res_map),
    (r'^(std::result::)?Result::<.*>::ok$', m_res_ok),
    (r'^(std::option::)?Option::<.*>::ok_or(_else)?(::<.*>)?$', m_ok_or),
    (r'^(std::option::)?Option::<.*>::copied$', m_opt_copied),
    (r'^(std::option::)?Option::<.*>::cloned$', m_opt_cloned),
    (r'^(std::option::)?Option::<.*>::map::<.*>$', m_opt_map),
    (r'^(std::option::)?Option::<.*>::and_then::<.*>$', m_opt_and_then),
    (r'^(std::option::)?Option::<.*>::map_or::<.*>$', m_opt_map_or),
    (r'^(std::option::)?Option::<.*>::as_ref$', m_opt_as_ref),
    (r'^(std::option::)?Option::<.*>::take$', m_opt_take),
    (r'^<(std::option::)?Option<.*> as Clone>::clone$', m_clone),
    (r'^<Arc<.*> as Deref>::deref$', m_arc_deref),
    (r'^<Arc<.*> as Clone>::clone$', m_arc_clone),
    (r'^Arc::<.*>::new$', m_arc_new),
    (r'^Box::<.*>::new$', m_identity),
    (r'^<Box<.*> as Deref(Mut)?>::deref(_mut)?$', m_identity),
    (r'^<%s as PartialOrd>::(le|lt|ge|gt)$' % INTS, m_int_rel),
    (r'^<.* as PartialOrd>::(le|lt|ge|gt)$', m_partial_ord),
    (r'^<%s as PartialOrd>::partial_cmp$' % INTS, m_int_partial_cmp),
    (r'^<%s as Ord>::cmp$' % INTS, m_int_cmp),
    (r'^<(isize|usize|u64|u32|u16|u8|i64|i32|bool) as PartialEq>::(eq|ne)$', m_int_eq),
    (r'^<&.* as PartialEq(<.*>)?>::(eq|ne)$', m_ref_eq),
    (r'^<std::cmp::Ordering as PartialEq>::(eq|ne)$', m_ordering_eq),
    (r'^<.* as PartialEq(<.*>)?>::ne$', m_ne),
    (r'^std::cmp::Ordering::then$', m_ordering_then),
    (r'^std::cmp::Ordering::reverse$', m_ordering_reverse),
    (r'^std::cmp::Ordering::is_(eq|ne|lt|gt|le|ge)$', m_ordering_is),
    (r'^std::string::String::new$', m_string_new),
    (r'^std::string::String::push_str$', m_string_push),
    (r'^std::string::String::is_empty$', m_string_is_empty),
    (r'^<(std::option::)?Option<.*> as PartialEq>::(eq|ne)$', lambda ex, c, a: (lambda e: Scalar(norm(e if c.endswith('::eq') else z_not(e)), 'bool'))(val_eq(ex, a[0], a[1]))),
    (r'^<std::string::String as PartialEq>::eq$', lambda ex, c, a: boolv(strip(ex, a[0]).text == strip(ex, a[1]).text)),
    (r'^<std::string::String as PartialEq>::ne$', lambda ex, c, a: boolv(strip(ex, a[0]).text != strip(ex, a[1]).text)),
    (r'^<std::string::String as Deref>::deref$', lambda ex, c, a: ex.deref_val(a[0])),
    (r'^<std::string::String as Clone>::clone$', lambda ex, c, a: strip(ex, a[0])),
    (r'^(format|std::fmt::format|<str as ToString>::to_string|<std::string::String as From<&str>>::from|<.* as ToString>::to_string|std::fmt::format::format_inner|alloc::fmt::format)$', m_fmt),
    (r'^(core::fmt::rt::Argument::<.*>::new_\w+::<.*>|Arguments::<.*>::new.*|Arguments::<.*>::from_str.*|std::io::_print|std::io::_eprint)$', m_opaque),
    (r'^must_use::<.*>$', m_identity),
    (r'^<(u8|u16|u32|u64|usize|i32|i64) as From<\1>>::from$', m_identity),
    (r'^(std::rt::panic_fmt|core::panicking::\w+|std::rt::begin_panic.*|core::panicking::assert_failed.*|std::process::exit|core::panicking::panic.*)(::<.*>)?$', m_panic),
    (r'^Vec::<.*>::len$', m_vec_len),
    (r'^core::slice::<impl \[.*\]>::len$', m_vec_len),
    (r'^Vec::<.*>::(new|with_capacity)$', m_vec_new),
    (r'^Vec::<.*>::push$', m_vec_push),
    (r'^Vec::<.*>::pop$', m_vec_pop),
    (r'^Vec::<.*>::is_empty$', m_vec_is_empty),
    (r'^Vec::<.*>::clear$', m_vec_clear),
    (r'^Vec::<.*>::insert$', m_vec_insert),
    (r'^Vec::<.*>::remove$', m_vec_remove),
    (r'^Vec::<.*>::swap_remove$', m_vec_swap_remove),
    (r'^Vec::<.*>::truncate$', m_vec_truncate),
    (r'^Vec::<.*>::split_off$', m_split_off),
    (r'^Vec::<.*>::retain::<.*>$', m_retain),
    (r'^Vec::<.*>::splice::<.*>$', m_vec_splice),
    (r'^Vec::<.*>::drain::<.*>$', m_vec_drain),
    (r'^Vec::<.*>::append$', m_vec_append),
    (r'^Vec::<.*>::extend_from_slice$', m_vec_extend_from_slice),
    (r'^Vec::<.*>::dedup$', m_dedup),
    (r'^Vec::<.*>::(as_slice|as_mut_slice)$', m_vec_deref),
    (r'^(std::vec::)?from_elem::<.*>$', m_vec_from_elem),
    (r'^<Vec<.*> as Deref(Mut)?>::deref(_mut)?$', m_vec_deref),
    (r'^<Vec<.*> as Clone>::clone$', m_clone),
    (r'^<Vec<.*> as (std::ops::)?Index(Mut)?<.*>>::index(_mut)?$', m_index),
    (r'^<\[.*\] as (std::ops::)?Index(Mut)?<.*>>::index(_mut)?$', m_index),
    (r'^<Vec<.*> as Extend<.*>>::extend::<.*>$', m_vec_extend),
    (r'^<Vec<.*> as FromIterator<.*>>::from_iter::<.*>$', lambda ex, c, a: m_it_collect(ex, c, a)),
    (r'^<Vec<.*> as Default>::default$', m_vec_new),
    (r'^core::slice::<impl \[.*\]>::(first|first_mut)$', m_slice_first),
    (r'^core::slice::<impl \[.*\]>::(last|last_mut)$', m_slice_last),
    (r'^core::slice::<impl \[.*\]>::(get|get_mut)::<.*>$', m_slice_get),
    (r'^core::slice::<impl \[.*\]>::(iter|iter_mut)$', m_slice_iter),
    (r'^core::slice::<impl \[.*\]>::is_empty$', m_slice_is_empty),
    (r'^(core::|std::)?slice::<impl \[.*\]>::to_vec$', m_to_vec),
    (r'^core::slice::<impl \[.*\]>::binary_search_by::<.*>$', m_binary_search_by),
    (r'^core::slice::<impl \[.*\]>::binary_search$', m_binary_search),
    (r'^core::slice::<impl \[.*\]>::contains$', m_vec_contains),
    (r'^core::slice::<impl \[.*\]>::rotate_left$', m_rotate_left),
    (r'^core::slice::<impl \[.*\]>::reverse$', m_reverse),
    (r'^core::slice::<impl \[.*\]>::swap$', m_vec_swap),
    (r'^(std::|core::)?slice::<impl \[.*\]>::sort_by_key::<.*>$', m_sort_by_key),
    (r'^(std::|core::)?slice::<impl \[.*\]>::sort_by::<.*>$', m_sort_by),
    (r'^(std::|core::)?slice::<impl \[.*\]>::(sort|sort_unstable)$', m_sort),
    (r'^core::slice::<impl \[.*\]>::into_vec::<.*>$', m_box_vec), (r'^std::boxed::box_assume_init_into_vec_unsafe::<.*>$', m_box_vec),
    (r'^Box::<.*>::new_uninit$', lambda ex, c, a: Lazy('Box<MaybeUninit>', 'box%d' % ex.stats['calls'])),
    (r'^<\[.*\] as IntoIterator>::into_iter$', lambda ex, c, a: ListIter([x.v for x in a[0].cells])),
    (r'^<.* as IntoIterator>::into_iter$', m_into_iter),
    (r'^<.* as (Iterator|ExactSizeIterator)>::next$', m_it_next),
    (r'^<.* as DoubleEndedIterator>::next_back$', m_it_next_back),
    (r'^<.* as Iterator>::map::<.*>$', m_it_map),
    (r'^<.* as Iterator>::filter::<.*>$', m_it_filter),
    (r'^<.* as Iterator>::filter_map::<.*>$', lambda ex, c, a: FilterMapIt(to_iter(ex, a[0]), a[1])),
    (r'^<.* as Iterator>::map_while::<.*>$', lambda ex, c, a: MapWhileIt(to_iter(ex, a[0]), a[1])),
    (r'^<.* as Iterator>::take_while::<.*>$', lambda ex, c, a: TakeWhileIt(to_iter(ex, a[0]), a[1])),
    (r'^<.* as Iterator>::skip_while::<.*>$', lambda ex, c, a: SkipWhileIt(to_iter(ex, a[0]), a[1])),
    (r'^<.* as Iterator>::flat_map::<.*>$', lambda ex, c, a: FlatMapIt(to_iter(ex, a[0]), a[1])),
    (r'^<.* as Iterator>::flatten$', lambda ex, c, a: FlatMapIt(to_iter(ex, a[0]), None)),
    (r'^<.* as Iterator>::(copied|cloned)(::<.*>)?$', m_it_copied),
    (r'^<.* as Iterator>::take$', m_it_take),
    (r'^<.* as Iterator>::skip$', m_it_skip),
    (r'^<.* as Iterator>::step_by$', lambda ex, c, a: StepByIt(to_iter(ex, a[0]), ex.concretize(a[1], 1, 64))),
    (r'^<.* as Iterator>::enumerate$', m_it_enumerate),
    (r'^<.* as Iterator>::chain::<.*>$', m_it_chain),
    (r'^<.* as Iterator>::zip::<.*>$', lambda ex, c, a: ZipIt(to_iter(ex, a[0]), to_iter(ex, a[1]))),
    (r'^<.* as Iterator>::rev$', lambda ex, c, a: RevIt(to_iter(ex, a[0]))),
    (r'^<.* as Iterator>::peekable$', m_peekable),
    (r'^Peekable::<.*>::peek$', m_peek),
    (r'^<.* as Itertools>::tuple_windows::<.*>$', m_it_windows),
    (r'^<.* as Itertools>::circular_tuple_windows::<.*>$', lambda ex, c, a: CircWindowsIt(to_iter(ex, a[0]))),
    (r'^<.* as Itertools>::contains::<.*>$', m_it_contains),
    (r'^<.* as Itertools>::sorted_by(_key)?::<.*>$', None),   # placeholder replaced below
    (r'^<.* as Iterator>::any::<.*>$', m_it_any),
    (r'^<.* as Iterator>::all::<.*>$', m_it_all),
    (r'^<.* as Iterator>::fold::<.*>$', m_it_fold),
    (r'^<.* as Iterator>::for_each::<.*>$', m_it_for_each),
    (r'^<.* as Iterator>::sum::<.*>$', m_it_sum),
    (r'^<.* as Iterator>::collect::<(std::collections::|im::)?(HashMap|BTreeMap|hash_map::HashMap)<.*>>$', m_collect_map),
    (r'^<.* as Iterator>::collect::<(std::collections::|im::)?HashSet<.*>>$', m_collect_set),
    (r'^<.* as Iterator>::collect::<.*>$', m_it_collect),
    (r'^<.* as Iterator>::unzip::<.*>$', m_it_unzip),
    (r'^<.* as Iterator>::position::<.*>$', m_it_position),
    (r'^<.* as Iterator>::find::<.*>$', m_it_find),
    (r'^<.* as Iterator>::find_map::<.*>$', m_it_find_map),
    (r'^<.* as Iterator>::last$', m_it_last),
    (r'^<.* as Iterator>::nth$', m_it_nth),
    (r'^<.* as Iterator>::count$', m_it_count),
    (r'^<.* as Iterator>::min_by::<.*>$', m_it_min_by),
    (r'^<.* as Iterator>::max_by::<.*>$', m_it_max_by),
    (r'^<.* as Iterator>::min_by_key::<.*>$', m_it_min_by_key),
    (r'^<.* as Iterator>::max_by_key::<.*>$', m_it_max_by_key),
    (r'^<.* as Iterator>::max$', m_it_max),
    (r'^<.* as Iterator>::min$', m_it_min),
    (r'^(std::iter::)?once::<.*>$', m_once),
    (r'^(std::iter::)?empty::<.*>$', m_empty_iter),
    (r'^<.* as Try>::branch$', m_try_branch),
    (r'^<.* as FromResidual<.*>>::from_residual$', m_from_residual),
    (r'^(std::cmp::|core::cmp::)?(min|max)::<%s>$' % INTS, m_min_max),
    (r'^<%s as Ord>::(min|max)$' % INTS, m_min_max),
    (r'^core::num::<impl \w+>::(min|max)$', m_min_max),
    (r'^<.* as Ord>::(min|max)$', m_ord_min_max_generic),
    (r'^core::num::<impl \w+>::div_ceil$', m_div_ceil),
    (r'^core::num::<impl \w+>::saturating_sub$', m_saturating_sub),
    (r'^core::num::<impl \w+>::saturating_add$', m_saturating_add),
    (r'^core::num::<impl \w+>::checked_(mul|add|sub)$', m_checked),
    (r'^core::num::<impl \w+>::abs$', m_abs),
    (r'^std::mem::swap::<.*>$', m_mem_swap), (r'^std::mem::replace::<.*>$', m_mem_replace), (r'^std::mem::take::<Vec<.*>>$', m_mem_take_vec),
    (r'^std::mem::drop::<.*>$', m_unit),
    # maps
    (r'^(std::collections::|im::)?(HashMap|hash_map::HashMap|HashSet)::<.*>::(new|with_capacity)$', m_map_new),
    (r'^<(std::collections::|im::)?(HashMap|HashSet)<.*> as Default>::default$', m_map_new),
    (r'^BTreeMap::<.*>::new$', m_btree_new),
    (r'^(std::collections::|im::)?(HashMap|BTreeMap)::<.*>::(get|get_mut)::<.*>$', m_map_get),
    (r'^(std::collections::|im::)?(HashMap|BTreeMap)::<.*>::contains_key::<.*>$', m_map_contains),
    (r'^(std::collections::|im::)?HashSet::<.*>::contains::<.*>$', m_map_contains),
    (r'^<(std::collections::|im::)?(HashMap|BTreeMap)<.*> as (std::ops::)?Index(Mut)?<.*>>::index(_mut)?$', m_map_index),
    (r'^(std::collections::|im::)?(HashMap|BTreeMap)::<.*>::insert$', m_map_insert),
    (r'^(std::collections::|im::)?(HashMap|BTreeMap)::<.*>::remove::<.*>$', m_map_remove),
    (r'^(std::collections::|im::)?(HashMap|HashSet|BTreeMap)::<.*>::len$', m_map_len),
    (r'^(std::collections::|im::)?(HashMap|HashSet|BTreeMap)::<.*>::is_empty$', m_map_is_empty),
    (r'^(std::collections::|im::)?(HashMap|BTreeMap)::<.*>::values$', m_map_values),
    (r'^(std::collections::|im::)?(HashMap|BTreeMap)::<.*>::into_values$', m_map_into_values),
    (r'^(std::collections::|im::)?(HashMap|BTreeMap)::<.*>::keys$', m_map_keys),
    (r'^(std::collections::|im::)?(HashMap|BTreeMap)::<.*>::iter$', m_map_iter),
    (r'^(std::collections::|im::)?HashSet::<.*>::iter$', m_set_iter),
    (r'^(std::collections::|im::)?HashMap::<.*>::entry$', m_entry),
    (r'^(std::collections::hash_map|im::hashmap)::Entry::<.*>::or_insert$', m_or_insert),
    (r'^(std::collections::hash_map|im::hashmap)::Entry::<.*>::or_insert_with::<.*>$', m_or_insert_with),
    (r'^(std::collections::hash_map|im::hashmap)::Entry::<.*>::or_default$', m_or_default_vec),
    (r'^(std::collections::|im::)?HashSet::<.*>::insert$', m_set_insert),
    (r'^(std::collections::|im::)?HashSet::<.*>::remove::<.*>$', m_set_remove),
    (r'^<(std::collections::|im::)?(HashMap|HashSet|BTreeMap)<.*> as Clone>::clone$', m_clone),
    (r'^BTreeMap::<.*>::range::<.*>$', m_btree_range),
]
def m_sorted_by(ex, callee, args):
    v = m_it_collect(ex, callee, [args[0]])
    (m_sort_by_key if 'sorted_by_key' in callee else m_sort_by)(ex, callee, [v, args[1]])
    return ListIter([c.v for c in v.cells])
STD_MODELS = [(p, (m_sorted_by if f is None else f)) for p, f in STD_MODELS]
