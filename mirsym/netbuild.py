"""Construct the abstract `Network` value of a shape directly (attributes symbolic, structure concrete).

Mirrors the id assignment of `Network::new` (depots first, two nodes each, overflow depot last; then the
service trips per vehicle type; then maintenance slots).  Property C17 executes the real `Network::new`
symbolically on the same shapes and asserts equality with this construction (assume/guarantee).
"""
import z3
from .core import *
from .models import arc, sort_model, strip

BASE_DAY = 146097      # 0400-01-01 in rapid_time's day count (one full 400-year cycle after 0000-01-01): keeps times away from the calendar's origin
NV = {'StartDepot': 0, 'Service': 1, 'Maintenance': 2, 'EndDepot': 3}
KIND = {v: k for k, v in NV.items()}
def S(name, **kw):
    fields = STRUCTS.get(name)
    if fields is None: raise Unsupported('struct %s not found in sources' % name)
    if set(fields) != set(kw): raise Unsupported('struct %s: fields %s differ from the expected %s' % (name, fields, sorted(kw)))
    return Agg(name, None, [kw[f] for f in fields])
def fld(v, sname, fname): return v.fields[STRUCTS[sname].index(fname)]
def setfld(v, sname, fname, x): v.fields[STRUCTS[sname].index(fname)] = x
def nidx(kind, i): return Agg('NodeIdx', NV[kind], [bv(i, 'u16')])
def vtidx(i): return Agg('VehicleTypeIdx', None, [bv(i, 'u16')])
def didx(i): return Agg('DepotIdx', None, [bv(i, 'u16')])
def lidx(i): return Agg('LocationIdx', None, [bv(i, 'u16')])
def vehidx(i, dummy=False): return Agg('VehicleIdx', 1 if dummy else 0, [bv(i, 'u16')])
def station(e): return Agg('Location', 0, [Agg('LocationIdx', None, [Scalar(e, 'u16')])])
def nowhere(): return Agg('Location', 1, [])
def dt_point(days, sec): return Agg('DateTime', 1, [S('TimePoint', days=Scalar(_c(days), 'u64'), seconds=Scalar(_c(sec), 'u32'))])
def dur(sec): return Agg('Duration', 0, [S('DurationLength', seconds=Scalar(_c(sec), 'u64'))])
def dur_inf(): return Agg('Duration', 1, [])
def dist(m): return Agg('Distance', 0, [Scalar(_c(m), 'u64')])
def dist_inf(): return Agg('Distance', 1, [])
def _z(x): return x if isinstance(x, z3.ExprRef) else z3.IntVal(x)
def _c(x): return norm(x)
def opt_none(): return Agg('Option', 0, [])

class Spec:
    """shape of an instance; every attribute not fixed here is symbolic"""
    def __init__(self, nloc=2, types=None, depots=None, trips=None, maint=0, costs=(2, 3, 5, 7, 11),
                 tmax=4096, dmax=1024, ttmax=1024, ddmax=1024, distmax=1024, shmax=256, capmax=3, paxmax=1,
                 forbid='sym', maxdist=0, two_days=False, level='basic', trackmax=2):
        self.nloc = nloc
        self.types = types or [dict(cap=5, seats=7, limit=None)]
        self.depots = depots if depots is not None else [dict()]
        self.trips = trips if trips is not None else [dict(vt=0)]
        self.maint = maint; self.costs = costs
        self.tmax = tmax; self.dmax = dmax; self.ttmax = ttmax; self.ddmax = ddmax; self.distmax = distmax
        self.shmax = shmax; self.capmax = capmax; self.paxmax = paxmax; self.forbid = forbid; self.maxdist = maxdist
        self.two_days = two_days; self.level = level; self.trackmax = trackmax
    def describe(self):
        return dict(locations=self.nloc, vehicle_types=self.types, depots=len(self.depots), trips=[t.get('vt', 0) for t in self.trips],
                    maintenance_slots=self.maint, costs=self.costs, time_window_s=self.tmax, max_duration_s=self.dmax,
                    max_dead_head_s=self.ttmax, max_dead_head_m=self.ddmax, max_trip_m=self.distmax, max_shunting_s=self.shmax,
                    max_depot_capacity=self.capmax, max_passengers=self.paxmax, forbid_dead_heads=self.forbid, level=self.level)

class Net:
    pass

def build(ex, spec):
    """returns Net with .nw (Network Agg), .arc, .A (name -> z3 var), .nodes (list of dict), .ids"""
    A = ex.inputs
    def sym(name, ty, hi, lo=0): return sym_int(ex, name, ty, lo, hi).e
    net = Net(); net.spec = spec; net.A = A
    nloc = spec.nloc; ntypes = len(spec.types)
    nodes = MapVal(name='nodes'); info = {}
    # ---- vehicle types
    vts = MapVal(name='vehicle_types'); net.types = []
    for i, t in enumerate(spec.types):
        lim = t.get('limit')
        if lim == 'sym':
            lv = sym('vt%d_limit' % i, 'u32', t.get('limit_max', 3)); limit, present = sym_option(ex, 'vt%d_limit' % i, Scalar(lv, 'u32'))
            linfo = (present, lv)
        elif lim is None: limit = opt_none(); linfo = (z3.BoolVal(False), z3.IntVal(0))
        else: limit = some(bv(lim, 'u32')); linfo = (z3.BoolVal(True), z3.IntVal(lim))
        vt = S('VehicleType', idx=vtidx(i), id=StrVal('vt%d' % i), seats=bv(t['seats'], 'u32'), capacity=bv(t['cap'], 'u32'), maximal_formation_count=limit)
        vts.entries.append((vtidx(i), Cell(arc(vt)))); net.types.append(dict(cap=t['cap'], seats=t['seats'], limit=linfo))
    vehicle_types = S('VehicleTypes', vehicle_types=vts, ids_sorted=VecVal([Cell(vtidx(i)) for i in range(ntypes)]))
    # ---- depots (+ overflow last)
    depots = MapVal(name='depots'); net.depots = []; counter = 0
    ndep = len(spec.depots)
    for i, d in enumerate(spec.depots + [None]):
        overflow = d is None
        if overflow:
            loc = nowhere(); locterm = None
            capterm = _z(spec.overflow_cap) if hasattr(spec, 'overflow_cap') else z3.IntVal(len(spec.trips) * 4 + 4)
            allowed = MapVal([(vtidx(t), Cell(opt_none())) for t in range(ntypes)], name='allowed')
            ainfo = {t: ('none',) for t in range(ntypes)}
        else:
            locterm = _z(d['loc']) if 'loc' in d else sym('depot%d_loc' % i, 'u16', nloc - 1); loc = station(locterm)
            capterm = _z(d['cap']) if 'cap' in d else sym('depot%d_cap' % i, 'u32', spec.capmax)
            allowed = MapVal(name='allowed'); ainfo = {}
            for t in range(ntypes):
                a = d.get('allowed', {}).get(t, 'none')
                if a == 'absent': ainfo[t] = ('absent',); continue
                if a == 'none': allowed.entries.append((vtidx(t), Cell(opt_none()))); ainfo[t] = ('none',)
                elif a == 'sym':
                    cv = sym('depot%d_cap_vt%d' % (i, t), 'u32', spec.capmax)
                    allowed.entries.append((vtidx(t), Cell(some(Scalar(_c(cv), 'u32'))))); ainfo[t] = ('some', cv)
                else: allowed.entries.append((vtidx(t), Cell(some(bv(a, 'u32'))))); ainfo[t] = ('some', z3.IntVal(a))
        dep = S('Depot', idx=didx(i), id=StrVal('OVERFLOW_DEPOT' if overflow else 'dep%d' % i), location=loc,
                total_capacity=Scalar(_c(capterm), 'u32'), allowed_types=allowed)
        sd = nidx('StartDepot', counter); ed = nidx('EndDepot', counter + 1)
        for kind, ni, c in (('StartDepot', sd, counter), ('EndDepot', ed, counter + 1)):
            dn = S('DepotNode', depot_idx=didx(i), location=loc, id=StrVal(('s_' if kind == 'StartDepot' else 'e_') + dep.fields[STRUCTS['Depot'].index('id')].text))
            nodes.entries.append((ni, Cell(Agg('Node', NV[kind], [tup(ni, dn)]))))
            info[c] = dict(kind=kind, n=c, idx=ni, depot=i, loc=locterm, overflow=overflow, id=dn.fields[STRUCTS['DepotNode'].index('id')].text)
        depots.entries.append((didx(i), Cell(tup(dep, sd, ed))))
        net.depots.append(dict(i=i, overflow=overflow, loc=locterm, cap=capterm, allowed=ainfo, start=counter, end=counter + 1, id='OVERFLOW_DEPOT' if overflow else 'dep%d' % i))
        counter += 2
    overflow_idxs = tup(didx(ndep), nidx('StartDepot', 2 * ndep), nidx('EndDepot', 2 * ndep + 1))
    # ---- service trips (grouped by vehicle type in type order, as Network::new does)
    add_dt = ex.resolve_fn('<DateTime as Add<Duration>>::add') if False else None
    net.trips = []; service_by_type = {t: [] for t in range(ntypes)}
    order = sorted(range(len(spec.trips)), key=lambda k: (spec.trips[k].get('vt', 0), k))
    for k in order:
        t = spec.trips[k]; i = counter; counter += 1; vt = t.get('vt', 0)
        o = _z(t['o']) if 'o' in t else sym('o%d' % i, 'u16', nloc - 1); d = _z(t['d']) if 'd' in t else sym('d%d' % i, 'u16', nloc - 1)
        dep = _z(t['dep']) if 'dep' in t else sym('dep%d' % i, 'u32', spec.tmax - 1)
        du = _z(t['dur']) if 'dur' in t else sym('dur%d' % i, 'u64', spec.dmax, lo=t.get('durmin', 1))
        dm = _z(t['dist']) if 'dist' in t else sym('dist%d' % i, 'u64', spec.distmax)
        px = _z(t['pax']) if 'pax' in t else (sym('pax%d' % i, 'u32', spec.paxmax, lo=1) if spec.paxmax > 1 else z3.IntVal(1))
        se = _z(t['seated']) if 'seated' in t else (sym('seated%d' % i, 'u32', spec.paxmax) if spec.paxmax > 1 else z3.IntVal(1))
        lim = t.get('limit')
        if lim == 'sym':
            lv = sym('seg%d_limit' % i, 'u32', t.get('limit_max', 3)); limit, present = sym_option(ex, 'seg%d_limit' % i, Scalar(lv, 'u32')); linfo = (present, lv)
        elif lim is None: limit = opt_none(); linfo = (z3.BoolVal(False), z3.IntVal(0))
        else: limit = some(bv(lim, 'u32')); linfo = (z3.BoolVal(True), z3.IntVal(lim))
        arr = ex.call('<DateTime as Add<Duration>>::add', [dt_point(BASE_DAY, dep), dur(du)])
        st = S('ServiceTrip', id=StrVal('trip%d' % i), vehicle_type=vtidx(vt), origin=station(o), destination=station(d), departure=dt_point(BASE_DAY, dep),
               arrival=arr, distance=dist(dm), passengers=Scalar(_c(px), 'u32'), seated=Scalar(_c(se), 'u32'), maximal_formation_count=limit)
        ni = nidx('Service', i)
        nodes.entries.append((ni, Cell(Agg('Node', 1, [tup(ni, st)]))))
        info[i] = dict(kind='Service', n=i, idx=ni, vt=vt, o=o, d=d, st=dep, et=dep + du, dur=du, dist=dm, pax=px, seated=se, limit=linfo, id='trip%d' % i, sloc=o, eloc=d)
        net.trips.append(i); service_by_type[vt].append(i)
    if getattr(spec, 'ordered_trips', False):
        # symmetry reduction (stated bound): service trips are numbered in order of departure (ties allowed)
        for a, b in zip(net.trips, net.trips[1:]): ex.pc_global.append(info[a]['st'] <= info[b]['st'])
    # ---- maintenance slots
    net.maint = []
    for k in range(spec.maint):
        i = counter; counter += 1
        l = sym('mloc%d' % i, 'u16', nloc - 1); s = sym('mstart%d' % i, 'u32', spec.tmax - 1); du = sym('mdur%d' % i, 'u64', spec.dmax, lo=1)
        tc = sym('tracks%d' % i, 'u32', spec.trackmax)
        end = ex.call('<DateTime as Add<Duration>>::add', [dt_point(BASE_DAY, s), dur(du)])
        ms = S('MaintenanceSlot', id=StrVal('maint%d' % i), location=station(l), start=dt_point(BASE_DAY, s), end=end, track_count=Scalar(tc, 'u32'))
        ni = nidx('Maintenance', i)
        nodes.entries.append((ni, Cell(Agg('Node', 2, [tup(ni, ms)]))))
        info[i] = dict(kind='Maintenance', n=i, idx=ni, sloc=l, eloc=l, st=s, et=s + du, dur=du, tracks=tc, id='maint%d' % i, dist=z3.IntVal(0))
        net.maint.append(i)
    # ---- locations
    dh = MapVal(name='dead_head_trips'); stations = MapVal(name='stations'); net.tt = {}; net.dd = {}
    for a in range(nloc):
        inner = MapVal(name='dh%d' % a)
        for b in range(nloc):
            if a == b: t = z3.IntVal(0); m = z3.IntVal(0)
            else: t = sym('tt%d_%d' % (a, b), 'u64', spec.ttmax); m = sym('dd%d_%d' % (a, b), 'u64', spec.ddmax)
            net.tt[(a, b)] = t; net.dd[(a, b)] = m
            inner.entries.append((lidx(b), Cell(S('DeadHeadTrip', distance=dist(m), travel_time=dur(t)))))
        dh.entries.append((lidx(a), Cell(inner)))
        stations.entries.append((lidx(a), Cell(tup(StrVal('loc%d' % a), opt_none()))))
    locations = S('Locations', stations=stations, dead_head_trips=dh)
    # ---- config
    forbid = sym_bool(ex, 'forbid').e if spec.forbid == 'sym' else z3.BoolVal(bool(spec.forbid))
    shmin = sym('sh_min', 'u64', spec.shmax); shdht = sym('sh_dht', 'u64', spec.shmax)
    maxdist = sym('maint_maxdist', 'u64', spec.maxdist_max) if spec.maxdist == 'sym' else z3.IntVal(spec.maxdist)
    cs = spec.costs
    config = S('Config', forbid_dead_head_trip=Scalar(_c(forbid), 'bool'), day_limit_threshold=dur(0),
               shunting=S('ShuntingConfig', minimal=dur(shmin), dead_head_trip=dur(shdht)),
               maintenance=S('MaintenanceConfig', maximal_distance=dist(maxdist)),
               costs=S('CostsConfig', staff=bv(cs[0], 'u64'), service_trip=bv(cs[1], 'u64'), maintenance=bv(cs[2], 'u64'), dead_head_trip=bv(cs[3], 'u64'), idle=bv(cs[4], 'u64')))
    net.forbid = forbid; net.shmin = shmin; net.shdht = shdht; net.maxdist = maxdist; net.costs = dict(zip(('staff', 'service', 'maint', 'dh', 'idle'), cs))
    # planning days: the time window (tmax + dmax) is kept within one day unless two_days
    if spec.tmax + spec.dmax > 86400 and not spec.two_days: raise Unsupported('spec: time window exceeds one day')
    net.planning_days = 86400
    vals = {f: Opaque('Network.' + f) for f in STRUCTS['Network']}
    vals.update(nodes=nodes, depots=depots, overflow_depot_idxs=overflow_idxs, config=arc(config), locations=arc(locations),
                vehicle_types=arc(vehicle_types), planning_days=dur(net.planning_days), number_of_service_nodes=bv(len(spec.trips), 'usize'))
    net.info = info; net.nodes_map = nodes; net.ndep = ndep
    if spec.level == 'listed':
        # listings in id order, NOT sorted by time: only for code that does not rely on the iteration order of these listings
        # (Network::all_service_nodes / coverable_nodes are modelled accordingly by schedops.LISTED_MODELS); the time-sorted maps stay opaque
        sdeps = [d['start'] for d in net.depots]; edeps = [d['end'] for d in net.depots]
        vals['service_nodes'] = MapVal([(vtidx(t), Cell(VecVal([Cell(info[i]['idx']) for i in service_by_type[t]]))) for t in range(ntypes)], name='service_nodes')
        vals['maintenance_nodes'] = VecVal([Cell(info[i]['idx']) for i in net.maint])
        vals['start_depot_nodes'] = VecVal([Cell(info[i]['idx']) for i in sdeps]); vals['end_depot_nodes'] = VecVal([Cell(info[i]['idx']) for i in edeps])
    if spec.level == 'full':
        cmp_start = ex.resolve_fn('Node::cmp_start_time')
        cell_of = {conc(k.fields[0]): c for k, c in nodes.entries}
        def sorted_ids(ids):
            cells = [Cell(info[i]['idx']) for i in ids]
            sort_model(ex, cells, lambda a, b: ex.call_fn(cmp_start, [Ref(cell_of[conc(a.v.fields[0])]), Ref(cell_of[conc(b.v.fields[0])])]).variant < 0)
            return VecVal(cells)
        start_time = ex.resolve_fn('Node::start_time'); end_time = ex.resolve_fn('Node::end_time')
        def btree(ids, timefn):
            m = MapVal([(tup(ex.call_fn(timefn, [Ref(cell_of[i])]), info[i]['idx']), Cell(info[i]['idx'])) for i in ids], name='btree'); m.ordered = ['DateTime', 'NodeIdx']; return m
        sdeps = [d['start'] for d in net.depots]; edeps = [d['end'] for d in net.depots]
        vals['service_nodes'] = MapVal([(vtidx(t), Cell(sorted_ids(service_by_type[t]))) for t in range(ntypes)], name='service_nodes')
        vals['maintenance_nodes'] = sorted_ids(net.maint)
        vals['start_depot_nodes'] = VecVal([Cell(info[i]['idx']) for i in sdeps]); vals['end_depot_nodes'] = VecVal([Cell(info[i]['idx']) for i in edeps])
        vals['nodes_sorted_by_start'] = btree(sorted(info), start_time)
        vals['vehicle_type_nodes_sorted_by_start'] = MapVal([(vtidx(t), Cell(btree(service_by_type[t] + net.maint + sdeps + edeps, start_time))) for t in range(ntypes)], name='by_start')
        vals['vehicle_type_nodes_sorted_by_end'] = MapVal([(vtidx(t), Cell(btree(service_by_type[t] + net.maint + sdeps + edeps, end_time))) for t in range(ntypes)], name='by_end')
    net.nw = Agg('Network', None, [vals[f] for f in STRUCTS['Network']]); net.arc = arc(net.nw)
    return net

# ------------------------------------------------------------------ reference model of the timing rule (independent of the MIR)
def spec_can_reach(net, a, b):
    """documented rule as a z3 Bool over the attributes; a, b node numbers"""
    A = net.info[a]; B = net.info[b]
    if B['kind'] == 'StartDepot' or A['kind'] == 'EndDepot': return z3.BoolVal(False)
    if A['kind'] == 'StartDepot' or B['kind'] == 'EndDepot': return z3.BoolVal(True)
    same = A['eloc'] == B['sloc']
    tt = spec_travel_time(net, A['eloc'], B['sloc'])
    return z3.If(same, A['et'] + net.shmin <= B['st'], z3.And(z3.Not(net.forbid), A['et'] + tt + 2 * net.shdht <= B['st']))
def spec_travel_time(net, la, lb):
    e = z3.IntVal(0)
    for (a, b), t in net.tt.items():
        if a != b: e = z3.If(z3.And(la == a, lb == b), t, e)
    return e
def spec_distance(net, la, lb):
    e = z3.IntVal(0)
    for (a, b), t in net.dd.items():
        if a != b: e = z3.If(z3.And(la == a, lb == b), t, e)
    return e

# ------------------------------------------------------------------ model -> instance JSON (README input format) for native replay
def to_json(net, model):
    spec = net.spec
    def val(e):
        if isinstance(e, int): return e
        v = model.eval(e, model_completion=True)
        if z3.is_int_value(v): return v.as_long()
        if z3.is_true(v): return True
        if z3.is_false(v): return False
        raise RuntimeError('non-concrete model value for %s' % e)
    def iso(sec): return '0400-01-%02dT%02d:%02d:%02d' % (1 + sec // 86400, (sec % 86400) // 3600, (sec % 3600) // 60, sec % 60)
    js = {}
    js['vehicleTypes'] = []
    for i, t in enumerate(net.types):
        o = dict(id='vt%d' % i, capacity=t['cap'], seats=t['seats'])
        if val(t['limit'][0]): o['maximalFormationCount'] = val(t['limit'][1])
        js['vehicleTypes'].append(o)
    js['locations'] = [dict(id='loc%d' % a) for a in range(spec.nloc)]
    js['depots'] = []
    for d in net.depots:
        if d['overflow']: continue
        al = []
        for t, a in d['allowed'].items():
            if a[0] == 'absent': continue
            o = dict(vehicleType='vt%d' % t)
            if a[0] == 'some': o['capacity'] = val(a[1])
            al.append(o)
        js['depots'].append(dict(id=d['id'], location='loc%d' % val(d['loc']), capacity=val(d['cap']), allowedTypes=al))
    js['routes'] = []; js['departures'] = []
    for i in net.trips:
        I = net.info[i]
        seg = dict(id='rs%d' % i, order=0, origin='loc%d' % val(I['o']), destination='loc%d' % val(I['d']), distance=val(I['dist']), duration=val(I['dur']))
        if val(I['limit'][0]): seg['maximalFormationCount'] = val(I['limit'][1])
        js['routes'].append(dict(id='route%d' % i, vehicleType='vt%d' % I['vt'], segments=[seg]))
        js['departures'].append(dict(id='departure%d' % i, route='route%d' % i, segments=[dict(id='trip%d' % i, routeSegment='rs%d' % i, departure=iso(val(I['st'])), passengers=val(I['pax']), seated=val(I['seated']))]))
    if net.maint:
        js['maintenanceSlots'] = [dict(id='maint%d' % i, location='loc%d' % val(net.info[i]['sloc']), start=iso(val(net.info[i]['st'])), end=iso(val(net.info[i]['et'])), trackCount=val(net.info[i]['tracks'])) for i in net.maint]
    n = spec.nloc
    js['deadHeadTrips'] = dict(indices=['loc%d' % a for a in range(n)],
                               durations=[[val(net.tt[(a, b)]) for b in range(n)] for a in range(n)],
                               distances=[[val(net.dd[(a, b)]) for b in range(n)] for a in range(n)])
    c = net.costs
    js['parameters'] = dict(forbidDeadHeadTrips=val(net.forbid), shunting=dict(minimalDuration=val(net.shmin), deadHeadTripDuration=val(net.shdht)),
                            maintenance=dict(maximalDistance=val(net.maxdist)),
                            costs=dict(staff=c['staff'], serviceTrip=c['service'], maintenance=c['maint'], deadHeadTrip=c['dh'], idle=c['idle']))
    return js
