"""Native replay: build the replay driver against a scratch copy of /repo's current tree and run scenarios."""
import os, subprocess, json, sys, time, tempfile, shutil
from . import build

REPLAY = os.path.join(build.VERIF, 'replay')
SNAPR = os.path.join(build.BUILD, 'snap-replay')
TARGET = os.path.join(build.BUILD, 'target-replay')
ENV = dict(os.environ, CARGO_NET_OFFLINE='true', RUSTUP_TOOLCHAIN='stable')
ENV.pop('RUSTFLAGS', None)
_built = {}

def prepare():
    """snap -> snap-replay + injected accessor module (never touches /repo)"""
    with build.Lock('.snapr.lock'):
        subprocess.run(['rsync', '-a', '--delete', '--exclude', 'target', build.SNAP + '/', SNAPR + '/'], check=True)
        inj = os.path.join(REPLAY, 'inject')
        shutil.copy(os.path.join(inj, 'verif_access.rs'), os.path.join(SNAPR, 'solution', 'src', 'verif_access.rs'))
        lib = os.path.join(SNAPR, 'solution', 'src', 'lib.rs')
        with open(lib, 'a') as f: f.write('\npub mod verif_access;\n')
        tour = os.path.join(SNAPR, 'solution', 'src', 'tour.rs')
        with open(tour, 'a') as f: f.write(open(os.path.join(inj, 'tour_tail.rs')).read())
        swaps = os.path.join(SNAPR, 'solver', 'src', 'local_search', 'neighborhood', 'swaps.rs')
        with open(swaps, 'a') as f: f.write(open(os.path.join(inj, 'swaps_tail.rs')).read())
        shutil.copy(os.path.join(SNAPR, 'Cargo.lock'), os.path.join(REPLAY, 'Cargo.lock'))

def _stamp():
    import hashlib, glob
    h = hashlib.sha256(build.src_hash(['model', 'solution', 'solver', 'server', 'internal']).encode())
    for f in sorted(glob.glob(os.path.join(REPLAY, 'src', '*.rs')) + glob.glob(os.path.join(REPLAY, 'inject', '*')) + [os.path.join(REPLAY, 'Cargo.toml')]):
        h.update(open(f, 'rb').read())
    return h.hexdigest()

def binary(profile='dev'):
    key = profile
    if key in _built: return _built[key]
    p = os.path.join(TARGET, 'release' if profile == 'release' else 'debug', 'replay'); stampf = os.path.join(TARGET, profile + '.stamp')
    st = _stamp()
    if os.path.exists(p) and os.path.exists(stampf) and open(stampf).read() == st:
        _built[key] = p; return p
    with build.Lock('.replay.%s.lock' % profile):
        if os.path.exists(p) and os.path.exists(stampf) and open(stampf).read() == st:
            _built[key] = p; return p
        r = _build(profile)
        with open(stampf, 'w') as f: f.write(st)
    return r

def _build(profile):
    key = profile
    prepare()
    t0 = time.time()
    cmd = ['cargo', 'build', '--offline', '--target-dir', TARGET] + (['--release'] if profile == 'release' else [])
    with build.Lock('.cargo.replay.lock'):
        r = subprocess.run(cmd, cwd=REPLAY, env=ENV, stdout=subprocess.PIPE, stderr=subprocess.PIPE)
    if r.returncode != 0:
        sys.stderr.write(r.stderr.decode()[-6000:])
        raise RuntimeError('replay driver does not build against the current tree')
    sys.stderr.write('[replay] built %s in %.1fs\n' % (profile, time.time() - t0))
    p = os.path.join(TARGET, 'release' if profile == 'release' else 'debug', 'replay')
    _built[key] = p; return p

def run(scenario, profile='dev', timeout=600):
    """scenario: dict(instance=..., ops=[...]) -> list of observations (one per op)"""
    b = binary(profile)
    d = os.path.join(build.BUILD, 'scenarios'); os.makedirs(d, exist_ok=True)
    fd, path = tempfile.mkstemp(suffix='.json', dir=d)
    with os.fdopen(fd, 'w') as f: json.dump(scenario, f)
    try:
        r = subprocess.run([b, path], stdout=subprocess.PIPE, stderr=subprocess.PIPE, timeout=timeout)
    except subprocess.TimeoutExpired:
        return [dict(timeout=timeout)]
    finally:
        os.unlink(path)
    out = r.stdout.decode(errors='replace'); k = out.rfind('OBS [')
    if k >= 0: return json.loads(out[k + 4:].split('\n')[0])
    raise RuntimeError('replay produced no observation (rc=%s): %s' % (r.returncode, r.stderr.decode(errors='replace')[-2000:]))

def run_file(path, profile='dev'):
    return run(json.load(open(path)), profile)
