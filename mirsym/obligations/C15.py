"""C15 — rotation-cycle bookkeeping is exact (scripts of real Transition operations from the empty transition)."""
import z3, itertools, json
from ..core import *
from .. import models as M, netbuild as NB, replay
from ..harness import JobCtx
from ..specs import tour as TS, transition as XS
from .tourops import mval, F, node_ids, tour_nodes, names, mk_spec

PROPERTY = 'C15'
CRATES = ['rapid_time', 'model', 'solution']
MIR = [('rapid_time', 'on'), ('model', 'on'), ('solution', 'on'), ('solver', 'on'), ('rapid_solve', 'on'), ('solver', 'off'), ('rapid_solve', 'off'), ('solution', 'off')]
from . import C15opt
from .C15opt import job_tr_objective, job_tr_config, job_seq_improve
ASSUMPTIONS = ['tours are produced by the real Tour::new on symbolic trips/slots (maintenance counter, depots and the depot distance matrix are therefore terms over the instance attributes)',
               'every script starts from the transition of an empty vehicle set (Transition::new_fast(&[])) and applies real public operations only, so every pre-state has a native history',
               '"optimisation never worsens" is decomposed (C15opt.py): objective levels and indicators, solver configuration, and the improvers of rapid_solve (sequential Minimizer here, ParallelMinimizer in C08) executed from the registry crate\'s MIR with K symbolic candidates; the repeat-until-None loop of LocalSearchSolver::solve is read from the registry source, not executed',
               'rayon parallel iterators are modelled as their sequential counterparts']
BOUNDS = {'quick': '3 vehicles (service tour, maintenance tour, tour on the overflow depot) + 1 probe vehicle + 1 alternative tour, 2 real depots with symbolic locations; all scripts of 2 operations after the three initial add_vehicle_to_own_cycle, plus Transition::new_fast on 2-3 vehicles',
          'thorough': '4 vehicles; all scripts of 3 operations after the initial insertions; new_fast on up to 4 vehicles'}
OUTSIDE = 'longer scripts, more vehicles; whole optimisation trajectories on real instances (only the step rule, the objective and the configuration are decided); TransitionNeighborhood::neighbors_of is not executed: its candidates are compositions of move_vehicle and replace_cycle, which the scripts cover'
REQUIRED_COVERS = {'quick': ['sequential step accepted', 'sequential fixpoint', 'op:batch', 'op:move', 'op:remove', 'op:add_own', 'op:add_end', 'op:update', 'op:three_opt', 'empty cycle reused', 'negative counter'],
                   'thorough': ['sequential step accepted', 'sequential fixpoint', 'op:move', 'op:remove', 'op:add_own', 'op:add_end', 'op:update', 'op:three_opt', 'empty cycle reused', 'negative counter']}

# vehicle pool: (start depot, end depot, kind)
POOL = {'quick': [('real0', 'real0', 'S'), ('real0', 'real1', 'M'), ('overflow', 'real0', 'S')],
        'thorough': [('real0', 'real0', 'S'), ('real0', 'real1', 'M'), ('overflow', 'real0', 'S'), ('real1', 'overflow', 'S')]}
PROBE = ('real1', 'real0', 'S'); ALT = ('real1', 'real1', 'S'); ALT1 = ('real1', 'real0', 'S')     # alternative tours for update_vehicle of vehicles 0 and 1

def depot_node(net, which, start):
    d = net.depots[-1] if which == 'overflow' else net.depots[int(which[4:])]
    return d['start'] if start else d['end']

def setup(ex, tier, pool):
    """network + one real Tour per pool entry (+ probe + alt); returns net, tours(list of node lists), tour values"""
    kinds = [k for _, _, k in pool] + [PROBE[2], ALT[2], ALT1[2]]
    sp = mk_spec(tier, sum(1 for k in kinds if k == 'S'), sum(1 for k in kinds if k == 'M'), ndepots=2)
    net = NB.build(ex, sp)
    trips = list(net.trips); maints = list(net.maint); tours = []; vals = []
    for sd, ed, k in list(pool) + [PROBE, ALT, ALT1]:
        act = trips.pop(0) if k == 'S' else maints.pop(0)
        T = [depot_node(net, sd, True), act, depot_node(net, ed, False)]
        r = ex.call('Tour::new', [VecVal([Cell(net.info[n]['idx']) for n in T]), net.arc])
        if r.variant != 0: raise PathAbort()
        tours.append(T); vals.append(r.fields[0])
    return net, tours, vals

def read_tr(ex, tr):
    cyc = [[conc(c.v.fields[0]) for c in F(cy.v, 'TransitionCycle', 'cycle').cells] for cy in F(tr, 'Transition', 'cycles').cells]
    cnt = [F(cy.v, 'TransitionCycle', 'maintenance_counter').e for cy in F(tr, 'Transition', 'cycles').cells]
    look = {conc(k.fields[0]): conc(c.v) for k, c in F(tr, 'Transition', 'cycle_lookup').entries}
    empt = [conc(c.v) for c in F(tr, 'Transition', 'empty_cycles').cells]
    return cyc, cnt, look, empt, F(tr, 'Transition', 'total_maintenance_violation').e, F(tr, 'Transition', 'total_maintenance_counter').e

def valid_ops(cyc, nveh, has_alt_for=(0, 1)):
    present = [v for c in cyc for v in c]; absent = [v for v in range(nveh) if v not in present]
    ops = []
    for v in absent: ops.append(('add_own', v))
    for v in present: ops.append(('remove', v))
    for v in present:
        for c in range(len(cyc)): ops.append(('move', v, c))
    for v in absent:
        for c in range(len(cyc)): ops.append(('add_end', v, c))
    for v in present:
        if v in has_alt_for: ops.append(('update', v))
    for c in range(len(cyc)):
        n = len(cyc[c])
        for i, j, k in itertools.combinations(range(n), 3): ops.append(('three_opt', c, i, j, k))
    # batches as Schedule::update_transitions_and_violation_fast issues them: shared old tours, growing map of updated tours
    for a in present:
        for b in present:
            if a != b and a in has_alt_for:
                if b in has_alt_for: ops.append(('batch', ('update', a), ('update', b)))
                ops.append(('batch', ('update', a), ('remove', b)))
    return ops

def model_apply(cyc, empt, op):
    """structural reference (only used to enumerate scripts without duplicates)"""
    cyc = [list(c) for c in cyc]; empt = list(empt)
    def rem(v):
        for i, c in enumerate(cyc):
            if v in c:
                c.remove(v)
                if not c: empt.append(i)
    def add_end(v, c):
        if not cyc[c] and c in empt: empt.remove(c)
        cyc[c].append(v)
    k = op[0]
    if k == 'add_own':
        if empt: cyc[empt.pop()] = [op[1]]
        else: cyc.append([op[1]])
    elif k == 'remove': rem(op[1])
    elif k == 'move': rem(op[1]); add_end(op[1], op[2])
    elif k == 'add_end': add_end(op[1], op[2])
    elif k == 'three_opt':
        c, i, j, kk = op[1:]; x = cyc[c]; cyc[c] = x[:i+1] + x[j+1:kk+1] + x[i+1:j+1] + x[kk+1:]
    elif k == 'batch':
        for sub in op[1:]:
            if sub[0] == 'remove': rem(sub[1])
    return cyc, empt

def scripts(nveh, length):
    """all op-index vectors of the given length after the initial insertions, enumerated on the structural model"""
    start = ([[v] for v in range(nveh)], [])
    out = []
    def rec(state, vec):
        if len(vec) == length: out.append(tuple(vec)); return
        ops = valid_ops(state[0], nveh)
        for i, op in enumerate(ops): rec(model_apply(state[0], state[1], op), vec + [i])
    rec(start, [])
    return out

def jobs(tier, seed):
    pool = POOL[tier]; nveh = len(pool); L = 2 if tier == 'quick' else 3
    vecs = scripts(nveh, L)
    # group scripts by their first index to keep the number of jobs moderate
    groups = {}
    for v in vecs: groups.setdefault(v[:1] if tier == 'quick' else v[:2], []).append(v)
    js = [dict(name='script %s (%d)' % ('-'.join(map(str, k)), len(g)), func='job_scripts', kwargs=dict(tier=tier, vecs=g)) for k, g in sorted(groups.items())]
    # explicit scripts that build one long cycle and apply every 3-opt move to it
    nv = len(pool); build = [('move', v, 0) for v in range(1, nv)]
    tri = [tuple(build) + (('three_opt', 0) + ijk,) for ijk in itertools.combinations(range(nv), 3)]
    tri += [tuple(build) + (('three_opt', 0) + ijk, ('remove', 0)) for ijk in list(itertools.combinations(range(nv), 3))[:2]]
    js.append(dict(name='three_opt scripts (%d)' % len(tri), func='job_scripts', kwargs=dict(tier=tier, vecs=tri)))
    for n in ((2, 3) if tier == 'quick' else (2, 3, 4)):
        for kinds in itertools.product('SM', repeat=n):
            if sum(1 for k in kinds if k == 'M') > 2: continue
            js.append(dict(name='new_fast %s' % ''.join(kinds), func='job_new_fast', kwargs=dict(tier=tier, kinds=''.join(kinds))))
    js += C15opt.jobs(tier)
    return js

def check_state(J, ex, net, pc, tr, cur, label, mk):
    """invariants of a Transition value against the tours `cur` (vehicle -> node list)"""
    cyc, cnt, look, empt, viol, total = read_tr(ex, tr)
    members = [v for c in cyc for v in c]
    J.prove(pc, sorted(members) == sorted(cur) and len(set(members)) == len(members), 'cycles contain every vehicle exactly once', lambda m: mk(m, 'partition'))
    J.prove(pc, look == {v: i for i, c in enumerate(cyc) for v in c}, 'vehicle-to-cycle lookup matches the cycles', lambda m: mk(m, 'lookup'))
    J.prove(pc, sorted(empt) == [i for i, c in enumerate(cyc) if not c] and len(set(empt)) == len(empt), 'list of reusable empty cycles matches the cycles', lambda m: mk(m, 'empty-list'))
    if sorted(members) == sorted(cur) and len(set(members)) == len(members):
        cs, v, t = XS.totals(net, cyc, cur)
        J.prove(pc, z_and(*[Z(a) == b for a, b in zip(cnt, cs)]), 'every cycle counter equals recomputation', lambda m: mk(m, 'cycle-counter'))
        J.prove(pc, z_and(Z(viol) == v, Z(total) == t), 'total violation and total counter equal recomputation', lambda m: mk(m, 'totals'))
        for a in cs:
            if J.sat(pc, a < 0) is not None: J.covers.add('negative counter'); break

def job_scripts(name, tier, vecs):
    J = JobCtx(name, CRATES); ex = J.ex
    pool = POOL[tier]; nveh = len(pool); probe = nveh; alt = nveh + 1; alts = {0: nveh + 1, 1: nveh + 2}
    for vec in vecs:
        def body():
            ex.pc_global = []; ex.inputs = {}
            net, tours, vals = setup(ex, tier, pool)
            nw = Ref(net.arc.fields[0])
            def tmap(cur): return MapVal([(NB.vehidx(v), Cell(vals[ti])) for v, ti in sorted(cur.items())], name='tours')
            cur = {}                      # vehicle -> index into tours/vals
            tr = ex.call('Transition::new_fast', [Slice([]), Ref(Cell(tmap(cur))), nw])
            hist = []
            def apply(op, tr, cur):
                cur = dict(cur); k = op[0]; empty = MapVal(name='updated')
                if k == 'add_own':
                    cur[op[1]] = op[1] if op[1] != probe else probe
                    tr = ex.call('Transition::add_vehicle_to_own_cycle', [Ref(Cell(tr)), NB.vehidx(op[1]), Ref(Cell(vals[cur[op[1]]])), nw])
                elif k == 'remove':
                    tr = ex.call('Transition::remove_vehicle', [Ref(Cell(tr)), NB.vehidx(op[1]), Ref(Cell(empty)), Ref(Cell(tmap(cur))), nw]); del cur[op[1]]
                elif k == 'move':
                    tr = ex.call('Transition::move_vehicle', [Ref(Cell(tr)), NB.vehidx(op[1]), bv(op[2], 'usize'), Ref(Cell(tmap(cur))), nw])
                elif k == 'add_end':
                    cur[op[1]] = op[1]
                    tr = ex.call('Transition::add_vehicle_at_the_end', [Ref(Cell(tr)), NB.vehidx(op[1]), bv(op[2], 'usize'), Ref(Cell(empty)), Ref(Cell(tmap(cur))), nw])
                elif k == 'batch':
                    old = tmap(cur); updated = MapVal(name='updated')
                    for sub in op[1:]:
                        v = sub[1]
                        if sub[0] == 'update':
                            new = alts[v] if cur[v] != alts[v] else v
                            tr = ex.call('Transition::update_vehicle', [Ref(Cell(tr)), NB.vehidx(v), Ref(Cell(vals[new])), Ref(Cell(updated)), Ref(Cell(old)), nw])
                            updated.entries.append((NB.vehidx(v), Cell(Ref(Cell(vals[new]))))); cur[v] = new
                        else:
                            tr = ex.call('Transition::remove_vehicle', [Ref(Cell(tr)), NB.vehidx(v), Ref(Cell(updated)), Ref(Cell(old)), nw]); del cur[v]
                elif k == 'update':
                    new = alts[op[1]] if cur[op[1]] != alts[op[1]] else op[1]
                    tr = ex.call('Transition::update_vehicle', [Ref(Cell(tr)), NB.vehidx(op[1]), Ref(Cell(vals[new])), Ref(Cell(empty)), Ref(Cell(tmap(cur))), nw]); cur[op[1]] = new
                elif k == 'three_opt':
                    c, i, j, kk = op[1:]
                    cy = F(tr, 'Transition', 'cycles').cells[c].v
                    nc = ex.call('TransitionCycle::three_opt', [Ref(Cell(cy)), bv(i, 'usize'), bv(j, 'usize'), bv(kk, 'usize'), Ref(Cell(tmap(cur))), nw])
                    tr = ex.call('Transition::replace_cycle', [Ref(Cell(tr)), bv(c, 'usize'), nc])
                return tr, cur
            for v in range(nveh):
                tr, cur = apply(('add_own', v), tr, cur); hist.append((('add_own', v), tr, cur))
            for idx in vec:
                cyc = read_tr(ex, tr)[0]
                ops = valid_ops(cyc, nveh)
                op = tuple(idx) if isinstance(idx, (tuple, list)) else ops[idx % len(ops)]
                tr, cur = apply(op, tr, cur); hist.append((op, tr, cur))
            # probe: a fresh vehicle gets its own cycle; exposes stale entries of the empty-cycle list
            tr, cur = apply(('add_own', probe), tr, cur); hist.append((('add_own', probe), tr, cur))
            return net, tours, hist
        for pc, r in J.explore(body):
            if isinstance(r, Panic):
                J.panic(pc, r, clause='rotation-cycle operations do not panic on valid arguments'); continue
            net, tours, hist = r; J.reached += 1
            def mk(m, what, net=net, tours=tours, hist=hist):
                tn = lambda ti: 'T%d' % ti
                ops = [dict(op='tour_new', name=tn(i), nodes=names(net, T)) for i, T in enumerate(tours)]
                ops.append(dict(op='transition_new', name='X', vehicles=[]))
                cur = {}
                for op, tr_, cur_after in hist:
                    k = op[0]; o = dict(op='transition_op', transition='X', name='X', tours=[['veh_%d' % v, tn(ti)] for v, ti in sorted((cur_after if k in ('add_own', 'add_end') else cur).items())])
                    if k == 'add_own': o.update(what='add_vehicle_to_own_cycle', vehicle='veh_%d' % op[1])
                    elif k == 'remove': o.update(what='remove_vehicle', vehicle='veh_%d' % op[1])
                    elif k == 'move': o.update(what='move_vehicle', vehicle='veh_%d' % op[1], cycle=op[2])
                    elif k == 'add_end': o.update(what='add_vehicle_at_the_end', vehicle='veh_%d' % op[1], cycle=op[2])
                    elif k == 'update': o.update(what='update_vehicle', vehicle='veh_%d' % op[1], new_tour=tn(cur_after[op[1]]))
                    elif k == 'three_opt': o.update(what='three_opt', cycle=op[1], i=op[2], j=op[3], k=op[4])
                    elif k == 'batch':
                        subs = []
                        for sub in op[1:]:
                            subs.append(dict(what='update_vehicle', vehicle='veh_%d' % sub[1], new_tour=tn(cur_after[sub[1]])) if sub[0] == 'update' else dict(what='remove_vehicle', vehicle='veh_%d' % sub[1]))
                        o.update(what='batch', subs=subs)
                    ops.append(o); cur = cur_after
                mc = {tn(i): mval(m, TS.maintenance_counter(net, T)) for i, T in enumerate(tours)}
                dist = {}
                for a in tours:
                    for b in tours: dist['%s>%s' % (net.info[a[-1]]['id'], net.info[b[0]]['id'])] = mval(m, XS.depot_distance(net, a[-1], b[0]))
                steps = [dict(op=list(op), tours={'veh_%d' % v: tn(ti) for v, ti in cur_.items()}) for op, _, cur_ in hist]
                script = ' '.join(op[0] for op, _, _ in hist[len(POOL[tier]):-1])
                return dict(signature='%s after [%s]' % (what, script), what='rotation-cycle bookkeeping broken (%s) after the script [%s] + probe insertion' % (what, script),
                            scenario=dict(instance=NB.to_json(net, m), ops=ops),
                            expect=dict(kind='transition', mc=mc, dist=dist, depots={tn(i): [net.info[T[0]]['id'], net.info[T[-1]]['id']] for i, T in enumerate(tours)}, steps=steps, first_op=len(tours) + 1))
            for op, tr, cur in hist:
                J.covers.add('op:' + op[0])
                check_state(J, ex, net, pc, tr, {v: tours[ti] for v, ti in cur.items()}, op, mk)
            # was an empty cycle reused somewhere?
            for (op, tr, cur), (op2, tr2, cur2) in zip(hist, hist[1:]):
                if any(not c for c in read_tr(ex, tr)[0]) and op2[0] in ('add_own', 'add_end', 'move'): J.covers.add('empty cycle reused')
            def wit(m, hist=hist):
                c = mk(m, 'witness')
                sym = []
                for op, tr, cur in hist:
                    cyc, cnt, look, empt, viol, total = read_tr(ex, tr)
                    sym.append(dict(cycles=[dict(vehicles=['veh_%d' % v for v in cy], counter=mval(m, x)) for cy, x in zip(cyc, cnt)], violation=mval(m, viol), counter=mval(m, total)))
                return dict(scenario=c['scenario'], symbolic=sym, first_op=c['expect']['first_op'])
            J.witness(pc, wit, limit=1)
            J.sample('script %s: %s' % (list(vecs[0]), [op for op, _, _ in hist]))
    return J.result()

def job_new_fast(name, tier, kinds):
    J = JobCtx(name, CRATES); ex = J.ex
    depots = [('real0', 'real0'), ('real0', 'real1'), ('overflow', 'real0'), ('real1', 'real1')]
    pool = [(depots[i][0], depots[i][1], k) for i, k in enumerate(kinds)]
    def body():
        ex.pc_global = []; ex.inputs = {}
        net, tours, vals = setup(ex, tier, pool)
        n = len(pool)
        tm = MapVal([(NB.vehidx(v), Cell(vals[v])) for v in range(n)], name='tours')
        tr = ex.call('Transition::new_fast', [Slice([Cell(NB.vehidx(v)) for v in range(n)]), Ref(Cell(tm)), Ref(net.arc.fields[0])])
        return net, tours, tr
    for pc, r in J.explore(body):
        if isinstance(r, Panic): J.panic(pc, r, clause='Transition::new_fast does not panic'); continue
        net, tours, tr = r; J.reached += 1
        n = len(pool)
        def mk(m, what, net=net, tours=tours):
            tn = lambda ti: 'T%d' % ti
            ops = [dict(op='tour_new', name=tn(i), nodes=names(net, T)) for i, T in enumerate(tours)]
            ops.append(dict(op='transition_new', name='X', vehicles=[['veh_%d' % v, tn(v)] for v in range(n)]))
            mc = {tn(i): mval(m, TS.maintenance_counter(net, T)) for i, T in enumerate(tours)}
            dist = {}
            for a in tours:
                for b in tours: dist['%s>%s' % (net.info[a[-1]]['id'], net.info[b[0]]['id'])] = mval(m, XS.depot_distance(net, a[-1], b[0]))
            return dict(signature='new_fast %s %s' % (kinds, what), what='Transition::new_fast(%s): %s broken' % (kinds, what), scenario=dict(instance=NB.to_json(net, m), ops=ops),
                        expect=dict(kind='transition', mc=mc, dist=dist, depots={tn(i): [net.info[T[0]]['id'], net.info[T[-1]]['id']] for i, T in enumerate(tours)},
                                    steps=[dict(op=['new_fast'], tours={'veh_%d' % v: tn(v) for v in range(n)})], first_op=len(tours)))
        check_state(J, ex, net, pc, tr, {v: tours[v] for v in range(n)}, 'new_fast', mk)
        J.sample('new_fast(%s) -> cycles %s' % (kinds, read_tr(ex, tr)[0]))
    return J.result()

# ------------------------------------------------------------------ native confirmation
def confirm(c):
    if c.get('job_func') in ('job_tr_objective', 'job_tr_config', 'job_seq_improve'):
        from ..harness import confirm_on_other_flavour
        return confirm_on_other_flavour('mirsym.obligations.C15', c['job_func'], c.get('job_kwargs', {}), c['clause'])
    sc = c['scenario']; exp = c['expect']; out = []
    for prof in ('dev', 'release'):
        obs = replay.run(sc, prof)
        bad, why = native_violation(exp, obs)
        out.append('%s: %s' % (prof, why))
        if not bad: return False, '; '.join(out)
    return True, '; '.join(out)

def validate(w):
    obs = replay.run(w['scenario'], 'dev')[w['first_op']:]
    return (obs == w['symbolic']), 'native %s / symbolic %s' % (str(obs)[:300], str(w['symbolic'])[:300])

def native_violation(exp, obs):
    """evaluate the invariants on the natively observed transitions with the concrete reference values"""
    if any(isinstance(o, dict) and 'panic' in o for o in obs): return True, 'native panic: ' + [o for o in obs if isinstance(o, dict) and 'panic' in o][0]['panic'][:200]
    trs = obs[exp['first_op']:]
    for step, o in zip(exp['steps'], trs):
        tours = step['tours']; cycles = o['cycles']
        members = [v for cy in cycles for v in cy['vehicles']]
        if sorted(members) != sorted(tours): return True, 'after %s: cycles %s do not partition %s' % (step['op'], [cy['vehicles'] for cy in cycles], sorted(tours))
        tv = 0; tc = 0
        for cy in cycles:
            vs = cy['vehicles']; cnt = 0
            for i, v in enumerate(vs):
                w = vs[(i + 1) % len(vs)]
                cnt += exp['mc'][tours[v]] + exp['dist']['%s>%s' % (exp['depots'][tours[v]][1], exp['depots'][tours[w]][0])]
            if cnt != cy['counter']: return True, 'after %s: cycle %s counter native=%s recomputed=%s' % (step['op'], vs, cy['counter'], cnt)
            tv += max(0, cnt); tc += cnt
        if tv != o['violation'] or tc != o['counter']: return True, 'after %s: totals native=(%s,%s) recomputed=(%s,%s)' % (step['op'], o['violation'], o['counter'], tv, tc)
    return False, 'invariants hold natively on all %d steps' % len(exp['steps'])
