"""C08 — the local search only improves, in the documented priority order, up to a fixpoint.

(a) configuration: build_local_search_solver hands ParallelLocalSearchSolver::with_options the RSSched neighbourhood, the
    objective of objective::build (levels in the documented order; each level's indicator reads exactly its cached figure - the
    indicator job shared with C04), no custom improver, no time limit, no
    iteration limit;  (b) the improver that with_options then installs (rapid_solve's ParallelMinimizer::improve, executed
    from the registry crate's real MIR with K symbolic candidates): it returns a candidate only if it is strictly smaller
    than the current solution in the lexicographic order of the four levels, and None exactly when no candidate is."""
import z3, itertools
from ..core import *
from .. import models as M, netbuild as NB
from ..harness import JobCtx
from .C04 import LEVELS, read_objective, job_indicators

PROPERTY = 'C08'
MIR = [('solver', 'on'), ('rapid_solve', 'on'), ('solution', 'on'), ('solver', 'off'), ('rapid_solve', 'off'), ('solution', 'off')]
CRATES = ['solver', 'rapid_solve', 'solution']
ASSUMPTIONS = ['rayon parallel iterators are modelled as their sequential counterparts (map, min_by): ties between equally good candidates may be broken differently by rayon, which the obligation allows',
               'the loop of ParallelLocalSearchSolver::solve (repeat improve until None) is read from the registry source, not executed; whole search trajectories on real instances are outside',
               'objective values are vectors of four BaseValue::Integer entries (what objective::build produces, C04)']
BOUNDS = {'quick': 'improver: K = 0..3 candidates with fully symbolic i64 objective vectors', 'thorough': 'K = 0..4'}
OUTSIDE = 'termination of the search loop and whole trajectories (C06/C08 quantify over runs; only the step rule and the configuration are decided here)'

def jobs(tier, seed):
    js = [dict(name='search configuration', func='job_config', kwargs={}), dict(name='indicators', func='job_indicators', kwargs={})]
    for k in range(0, 4 if tier == 'quick' else 5): js.append(dict(name='improver step, %d candidates' % k, func='job_improve', kwargs=dict(k=k)))
    return js

def job_config(name, mode='on'):
    rec = []
    def m_with_options(ex, callee, args): rec.append(list(args)); return Opaque('solver')
    models = [(r'^ParallelLocalSearchSolver::<ScheduleWithInfo>::with_options::<.*>$', m_with_options),
              (r'^ParallelLocalSearchSolver::<ScheduleWithInfo>::with_options$', m_with_options),
              (r'^RSSchedParallelNeighborhood::new$', lambda ex, c, a: Agg('RSSchedParallelNeighborhood', None, list(a))),
              (r'^(rapid_time::)?Duration::new$', lambda ex, c, a: Opaque('duration ' + (a[0].text if isinstance(a[0], StrVal) else '?')))]
    J = JobCtx(name, CRATES, mode=mode, extra_models=models); ex = J.ex
    f = ex.resolve_fn('build_local_search_solver')
    def body():
        ex.pc_global = []; ex.inputs = {}; del rec[:]
        ex.call_fn(f, [M.arc(Opaque('network'))]); return list(rec)
    for pc, r in J.explore(body):
        if isinstance(r, Panic): J.panic(pc, r, clause='configuration: build does not panic'); continue
        J.reached += 1
        if len(r) != 1: J.prove(pc, False, 'configuration: exactly one solver is built'); continue
        nb, obj, improver, between, tlimit, ilimit = r[0]
        nbv = ex.strip(Ref(nb.fields[0])) if isinstance(nb, Agg) and nb.ty == 'Arc' else nb
        J.prove(pc, isinstance(nbv, Agg) and nbv.ty == 'RSSchedParallelNeighborhood', 'configuration: the neighbourhood is the RSSched parallel neighbourhood')
        objv = ex.strip(Ref(obj.fields[0]))
        J.prove(pc, read_objective(ex, objv) == [[(ENUMS['Coefficient'].index('Integer'), 1, n)] for n in LEVELS], 'configuration: the objective is the documented four-level objective')
        J.prove(pc, improver.variant == 0, 'configuration: no custom improver (the strict minimiser is installed)')
        J.prove(pc, tlimit.variant == 0 and ilimit.variant == 0, 'configuration: neither a time limit nor an iteration limit (the search stops only at a local optimum)')
        J.sample('with_options(neighbourhood=%s, improver=%s, time_limit=%s, iteration_limit=%s)' % (nbv.ty, improver.variant, tlimit.variant, ilimit.variant))
    return J.result()

def lex_lt(a, b):
    """strict lexicographic order of two lists of z3 Ints"""
    r = z3.BoolVal(False)
    for x, y in reversed(list(zip(a, b))): r = z3.Or(x < y, z3.And(x == y, r))
    return r
def lex_le(a, b): return z3.Not(lex_lt(b, a))

def job_improve(name, k, mode='on'):
    S = STRUCTS; nlev = 4
    J = None
    def ovec(ex, tag):
        vs = [sym_int(ex, '%s_l%d' % (tag, l), 'i64', -2**40, 2**40) for l in range(nlev)]
        iv = ENUMS['BaseValue'].index('Integer')
        return Agg('ObjectiveValue', None, [VecVal([Cell(Agg('BaseValue', iv, [v])) for v in vs])]), [v.e for v in vs]
    def evs(ov, sol): return Agg('EvaluatedSolution', None, [dict(objective_value=ov, solution=sol)[f] for f in S['EvaluatedSolution']])
    cands = {}
    def m_evaluate(ex, callee, args):
        sol = args[1]; i = sol.what
        ov, vs = ovec(ex, 'cand%s' % i); cands[i] = vs
        return evs(ov, sol)
    models = [(r'^<N as ParallelNeighborhood<S>>::neighbors_of$', lambda ex, c, a: M.ListIter([Opaque(i) for i in range(k)])),
              (r'^<.* as rayon::iter::ParallelIterator>::map::<.*>$', M.m_it_map), (r'^<.* as rayon::iter::ParallelIterator>::min_by::<.*>$', M.m_it_min_by),
              (r'^Objective::<S>::evaluate$', m_evaluate),
              (r'^std::cmp::Ordering::then_with::<.*>$', lambda ex, c, a: a[0] if a[0].variant != 0 else ex.call_closure(a[1], [])),
              (r'^<&(.*) as PartialOrd>::partial_cmp$', lambda ex, c, a: ex.call('<%s as PartialOrd>::partial_cmp' % re.match(r'^<&(.*) as PartialOrd>', c).group(1), [ex.deref_val(a[0]), ex.deref_val(a[1])]))]
    J = JobCtx(name, ['rapid_solve'], mode=mode, extra_models=models); ex = J.ex
    f = [v[0] for kk, v in ex.fns.items() if 'parallel_minimizer.rs' in kk and kk.endswith('>::improve')]
    if len(f) != 1: raise Unsupported('ParallelMinimizer::improve: %d candidates' % len(f))
    def body():
        ex.pc_global = []; ex.inputs = {}; cands.clear()
        cur_ov, cur = ovec(ex, 'cur')
        pm = Agg('ParallelMinimizer', None, [dict(neighborhood=M.arc(Opaque('nb')), objective=M.arc(Opaque('obj')))[x] for x in S['ParallelMinimizer']])
        r = ex.call_fn(f[0], [Ref(Cell(pm)), Ref(Cell(evs(cur_ov, Opaque('current'))))])
        return r, cur, dict(cands)
    for pc, r in J.explore(body):
        if isinstance(r, Panic): J.panic(pc, r, clause='improver: does not panic'); continue
        res, cur, cs = r; J.reached += 1
        if res.variant == 1:
            chosen = res.fields[0].fields[S['EvaluatedSolution'].index('solution')].what
            J.prove(pc, lex_lt(cs[chosen], cur), 'improver: an accepted step is strictly better in the lexicographic order of the four levels')
            J.prove(pc, z3.And(*[lex_le(cs[chosen], v) for v in cs.values()]), 'improver: the accepted candidate is a best neighbour')
            J.covers.add('step accepted')
        else:
            J.prove(pc, z3.And(*[z3.Not(lex_lt(v, cur)) for v in cs.values()]) if cs else True, 'improver: the search stops only when no neighbour is strictly better (fixpoint)')
            J.covers.add('fixpoint')
        J.sample('%d candidates -> %s' % (k, 'Some(candidate %s)' % res.fields[0].fields[S['EvaluatedSolution'].index('solution')].what if res.variant == 1 else 'None'))
    return J.result()
import re
REQUIRED_COVERS = {'quick': ['step accepted', 'fixpoint'], 'thorough': ['step accepted', 'fixpoint']}
def confirm(c):
    from ..harness import confirm_on_other_flavour
    return confirm_on_other_flavour('mirsym.obligations.C08', c['job_func'], c.get('job_kwargs', {}), c['clause'])
