"""Shared machinery for the schedule-level obligations (C09 schedule part, C10, C13, C02, C05, C01):
bounded scripts of REAL public schedule modifications from Schedule::empty, all attributes symbolic."""
import z3, itertools, json, os
from ..core import *
from .. import models as M, netbuild as NB, replay
from ..harness import JobCtx
from ..specs import tour as TS, transition as XS, schedule as SS
from .tourops import mval, F, tour_nodes, path_nodes, aggregates_ok, expected_aggregates

CRATES = ['rapid_time', 'model', 'solution']
MIR = [('rapid_time', 'on'), ('model', 'on'), ('solution', 'on')]

# ------------------------------------------------------------------ network shapes
def mk_spec(tier, variant=0):
    """variant 0: 1 type, 1 real depot; 1: 2 types, 2 real depots; 2: 2 types, 1 depot, lean; 3: lean variant of 0; 4: 1 type, 2 real depots of capacity 1"""
    if variant == 0:
        sp = NB.Spec(nloc=2, types=[dict(cap=5, seats=7, limit='sym')], depots=[dict(allowed={0: 'sym'})], trips=[dict(vt=0, limit='sym') for _ in range(3)], maint=1,
                     level='listed', maxdist='sym', paxmax=12, capmax=2)
    elif variant == 3:
        # lean variant of 0: depot capacity fixed (2, no per-type cap), no formation limits - fewer case distinctions per spawn
        sp = NB.Spec(nloc=2, types=[dict(cap=5, seats=7, limit=None)], depots=[dict(cap=2, allowed={0: 'none'})], trips=[dict(vt=0) for _ in range(3)], maint=1,
                     level='listed', maxdist='sym', paxmax=12, capmax=2)
    elif variant == 2:
        # two types, one depot, one trip per type: type-compatibility scripts
        sp = NB.Spec(nloc=2, types=[dict(cap=5, seats=7, limit=None), dict(cap=11, seats=3, limit=None)], depots=[dict(allowed={0: 'none', 1: 'none'})],
                     trips=[dict(vt=0), dict(vt=1)], maint=1, level='listed', maxdist='sym', paxmax=12, capmax=2)
    elif variant == 4:
        # lean, one type, TWO real depots of capacity 1 whose locations are symbolic (they may share a location): depot identity vs location, full depots
        sp = NB.Spec(nloc=2, types=[dict(cap=5, seats=7, limit=None)], depots=[dict(cap=1, allowed={0: 'none'}), dict(cap=1, allowed={0: 'none'})], trips=[dict(vt=0) for _ in range(2)], maint=1,
                     level='listed', maxdist='sym', paxmax=12, capmax=2)
    else:
        sp = NB.Spec(nloc=2, types=[dict(cap=5, seats=7, limit='sym'), dict(cap=11, seats=3, limit=None)], depots=[dict(allowed={0: 'sym', 1: 'none'}), dict(allowed={0: 'none', 1: 'absent'})],
                     trips=[dict(vt=0, limit='sym'), dict(vt=0, limit=None), dict(vt=1, limit='sym')], maint=1, level='listed', maxdist='sym', paxmax=12, capmax=2)
    sp.maxdist_max = 4096; sp.overflow_cap = 12
    return sp

def _m_all_service(ex, callee, args):
    nw = ex.strip(args[0]); nodes = F(nw, 'Network', 'nodes')
    return M.ListIter([copy_val(k) for k, c in nodes.entries if k.variant == NB.NV['Service']])
def _m_coverable(ex, callee, args):
    nw = ex.strip(args[0]); nodes = F(nw, 'Network', 'nodes')
    return M.ListIter([copy_val(k) for k, c in nodes.entries if k.variant in (NB.NV['Service'], NB.NV['Maintenance'])])
# the iteration ORDER of these two listings is abstracted (id order instead of departure order): schedule modifications only sum over them
# or initialise maps from them; a use that depends on the order would touch the opaque time-sorted maps and end as inconclusive
LISTED_MODELS = [(r'^Network::all_service_nodes$', _m_all_service), (r'^Network::coverable_nodes$', _m_coverable)]

# ------------------------------------------------------------------ reading a Schedule value
def vkey(v): return ('veh_%d' if v.variant == 0 else 'dummy_%d') % conc(v.fields[0])
def vval(k): return NB.vehidx(int(k.split('_')[1]), dummy=k.startswith('dummy'))
def read_schedule(ex, s):
    g = lambda f: F(s, 'Schedule', f)
    st = {}
    st['vehicles'] = {vkey(k): conc(F(ex.strip(Ref(F(c.v, 'Vehicle', 'vehicle_type').fields[0])), 'VehicleType', 'idx').fields[0]) for k, c in g('vehicles').entries}
    st['vehicle_ids_ok'] = all(vkey(k) == vkey(F(c.v, 'Vehicle', 'idx')) for k, c in g('vehicles').entries)
    st['tours'] = {vkey(k): tour_nodes(ex, c.v) for k, c in g('tours').entries}
    st['tour_vals'] = {vkey(k): c.v for k, c in g('tours').entries}
    st['tour_dummy_flag'] = {vkey(k): bool(conc(F(c.v, 'Tour', 'is_dummy'))) for k, c in g('tours').entries}
    st['dummies'] = {vkey(k): tour_nodes(ex, c.v) for k, c in g('dummy_tours').entries}
    st['dummy_vals'] = {vkey(k): c.v for k, c in g('dummy_tours').entries}
    st['formations'] = {conc(k.fields[0]): [vkey(F(x.v, 'Vehicle', 'idx')) for x in F(c.v, 'TrainFormation', 'formation').cells] for k, c in g('train_formations').entries}
    du = {}; nodup = True
    for k, c in g('depot_usage').entries:
        sp = [vkey(x) for x, _ in c.v.fields[0].entries]; de = [vkey(x) for x, _ in c.v.fields[1].entries]
        nodup = nodup and len(set(sp)) == len(sp) and len(set(de)) == len(de)
        du[(conc(k.fields[0].fields[0]), conc(k.fields[1].fields[0]))] = (set(sp), set(de))
    st['depot_usage'] = du; st['depot_usage_nodup'] = nodup
    st['sorted'] = {conc(k.fields[0]): [vkey(x.v) for x in c.v.cells] for k, c in g('vehicle_ids_grouped_and_sorted').entries}
    st['dummy_sorted'] = [vkey(x.v) for x in g('dummy_ids_sorted').cells]
    st['counter'] = conc(g('vehicle_counter'))
    up = g('unserved_passengers'); st['unserved'] = (up.fields[0].e, up.fields[1].e)
    st['maintenance_violation'] = g('maintenance_violation').e; st['costs'] = g('costs').e
    tr = {}
    for k, c in g('next_period_transitions').entries:
        t = c.v
        tr[conc(k.fields[0])] = dict(cycles=[[vkey(x.v) for x in F(cy.v, 'TransitionCycle', 'cycle').cells] for cy in F(t, 'Transition', 'cycles').cells],
                                     counters=[F(cy.v, 'TransitionCycle', 'maintenance_counter').e for cy in F(t, 'Transition', 'cycles').cells],
                                     violation=F(t, 'Transition', 'total_maintenance_violation').e, total=F(t, 'Transition', 'total_maintenance_counter').e,
                                     lookup={vkey(kk): conc(cc.v) for kk, cc in F(t, 'Transition', 'cycle_lookup').entries}, empty=[conc(x.v) for x in F(t, 'Transition', 'empty_cycles').cells])
    st['transitions'] = tr
    return st

def native_state(net, js):
    """the same state dictionary from the replay driver's schedule JSON (only what the public API shows)"""
    idn = {I['id']: n for n, I in net.info.items()}
    st = {}
    st['vehicles'] = {v['id']: int(v['type']) for v in js['vehicles']}
    st['tours'] = {v['id']: [idn[x] for x in v['tour']['nodes']] for v in js['vehicles']}
    st['tour_dummy_flag'] = {v['id']: v['tour']['is_dummy'] for v in js['vehicles']}
    st['tour_json'] = {v['id']: v['tour'] for v in js['vehicles']}
    st['dummies'] = {d['id']: [idn[x] for x in d['tour']['nodes']] for d in js['dummies']}
    st['formations'] = {idn[k]: list(v) for k, v in js['formations'].items()}
    st['depot_usage'] = None; dname = {d['id']: d['i'] for d in net.depots}
    st['depot_counts'] = {(dname[c['depot']], int(c['type'])): dict(spawned=c['spawned'], balance=c['balance']) for c in js['depots']}
    srt = {t: [] for t in range(len(net.types))}
    for v in js['vehicles']: srt[int(v['type'])].append(v['id'])
    st['sorted'] = srt; st['dummy_sorted'] = [d['id'] for d in js['dummies']]
    st['unserved'] = tuple(js['unserved']); st['maintenance_violation'] = js['maintenance_violation']; st['costs'] = js['costs']
    st['transitions'] = {int(t): dict(cycles=[c['vehicles'] for c in tr['cycles']], counters=[c['counter'] for c in tr['cycles']], violation=tr['violation'], total=tr['counter'], lookup=None)
                         for t, tr in js['transitions'].items()}
    return st

# ------------------------------------------------------------------ operation menu (computed from the actual state, so scripts never leave the valid arguments)
def menu(net, st, tier, swaps=False):
    if swaps:
        if isinstance(swaps, dict): return [o for o in swap_menu(net, st) if o[0] in swaps['kinds'] and (o[0] != 'swap_path_exchange' or o[3].startswith(swaps.get('provider', '')))]
        return [o for o in swap_menu(net, st) if swaps is True or o[0] in swaps]
    ops = []; nt = len(net.types)
    acts = list(net.trips) + list(net.maint)
    d0 = [d for d in net.depots if not d['overflow']][0]; ovf = net.depots[-1]
    trips_of = lambda t: [n for n in net.trips if net.info[n]['vt'] == t]
    for vt in range(nt):
        mine = trips_of(vt)
        for n in mine + list(net.maint): ops.append(('spawn', vt, [n]))
        for a, b in list(itertools.combinations(mine, 2))[:2]: ops.append(('spawn', vt, [a, b]))
        if mine:
            ops.append(('spawn', vt, [d0['start'], mine[0], d0['end']])); ops.append(('spawn', vt, [d0['start'], mine[0]])); ops.append(('spawn', vt, [mine[-1], d0['end']]))
        other = [n for n in net.trips if net.info[n]['vt'] != vt]
        if other: ops.append(('spawn', vt, [other[0]]))          # incompatible type: must be refused
    V = sorted(st['tours']); D = sorted(st['dummies'])
    for v in V: ops.append(('to_dummy', v))
    for v in V:
        vt = st['vehicles'][v]
        for n in trips_of(vt)[:3] + list(net.maint): ops.append(('add_path', v, [n]))
        if trips_of(vt): ops.append(('add_path', v, [d0['start'], trips_of(vt)[0]])); ops.append(('add_path', v, [trips_of(vt)[-1], ovf['end']]))
    for v in V:
        nodes = st['tours'][v][1:-1]
        for i in range(len(nodes)):
            for j in range(i, len(nodes)): ops.append(('remove_segment', v, nodes[i], nodes[j]))
    for p in V + D:
        pn = st['tours'][p][1:-1] if p in st['tours'] else st['dummies'][p]
        for r in V + D:
            if r == p: continue
            for i in range(len(pn)):
                for j in range(i, len(pn)):
                    ops.append(('fit_reassign', pn[i], pn[j], p, r)); ops.append(('override_reassign', pn[i], pn[j], p, r))
    for d in D:
        for vt in range(nt): ops.append(('spawn_dummy', d, vt))
    ops += [('improve_depots',), ('reassign_end_depots_greedily',), ('reassign_end_depots_consistent_with_transitions',), ('recompute_transitions_for',)]
    # transition replacement (what the server does with the optimiser's result): move one vehicle to another cycle and store the result
    for t, tr in sorted(st['transitions'].items()):
        for ci, cyc in enumerate(tr['cycles']):
            for v in cyc:
                for cj in range(len(tr['cycles'])):
                    if cj != ci: ops.append(('set_transitions', t, v, cj))
    return ops

def swap_menu(net, st):
    """the candidates the local-search neighbourhood generates (arguments as in RSSchedParallelNeighborhood)"""
    ops = []; V = sorted(st['tours']); D = sorted(st['dummies'])
    for m in net.maint:
        for v in V: ops.append(('swap_spawn_maint', m, v))
    for p in D + V:
        pn = st['tours'][p][1:-1] if p in st['tours'] else st['dummies'][p]
        segs = [(pn[i], pn[j]) for i in range(len(pn)) for j in range(i, len(pn))]
        if p in st['tours']: segs.append((pn[0], st['tours'][p][-1]))          # whole tour including the end depot
        for r in V + D:
            if r == p: continue
            for a, b in segs: ops.append(('swap_path_exchange', a, b, p, r))
    for v in V:
        for n in [x for x in net.trips if net.info[x]['vt'] == st['vehicles'][v]]: ops.append(('swap_hitch', n, v))
    for v in V:
        for n in st['tours'][v][1:-1]: ops.append(('swap_remove_single', n, v))
    return ops

def apply_op(ex, net, s, op):
    """returns Result/plain value of the real public function"""
    k = op[0]; sref = Ref(Cell(s)); idx = lambda n: net.info[n]['idx']
    def seg(a, b): return NB.S('Segment', start=idx(a), end=idx(b))
    if k == 'spawn': return ex.call('solution::schedule::modifications::<impl Schedule>::spawn_vehicle_for_path', [sref, NB.vtidx(op[1]), VecVal([Cell(idx(n)) for n in op[2]])])
    if k == 'spawn_dummy': return ex.call('solution::schedule::modifications::<impl Schedule>::spawn_vehicle_to_replace_dummy_tour', [sref, vval(op[1]), NB.vtidx(op[2])])
    if k == 'to_dummy': return ex.call('solution::schedule::modifications::<impl Schedule>::replace_vehicle_by_dummy', [sref, vval(op[1])])
    if k == 'add_path':
        p = ex.call('path::Path::new', [VecVal([Cell(idx(n)) for n in op[2]]), net.arc])
        if p.variant != 0 or p.fields[0].variant != 1: return err(StrVal('invalid path'))
        return ex.call('solution::schedule::modifications::<impl Schedule>::add_path_to_vehicle_tour', [sref, vval(op[1]), p.fields[0].fields[0]])
    if k == 'remove_segment': return ex.call('solution::schedule::modifications::<impl Schedule>::remove_segment', [sref, seg(op[2], op[3]), vval(op[1])])
    if k in ('fit_reassign', 'override_reassign'):
        return ex.call('solution::schedule::modifications::<impl Schedule>::' + k, [sref, seg(op[1], op[2]), vval(op[3]), vval(op[4])])
    if k == 'set_transitions':
        trs = F(s, 'Schedule', 'next_period_transitions'); tours = F(s, 'Schedule', 'tours')
        cur = [c.v for kk, c in trs.entries if conc(kk.fields[0]) == op[1]][0]
        new = ex.call('Transition::move_vehicle', [Ref(Cell(cur)), vval(op[2]), bv(op[3], 'usize'), Ref(Cell(tours)), Ref(net.arc.fields[0])])
        m = MapVal([(copy_val(kk), Cell(new if conc(kk.fields[0]) == op[1] else clone_val(c.v))) for kk, c in trs.entries], name='transitions')
        return ok(ex.call('Schedule::set_next_day_transitions', [sref, m]))
    if k == 'swap_path_exchange':
        sw = NB.S('PathExchange', segment=seg(op[1], op[2]), provider=vval(op[3]), receiver=vval(op[4])); return ex.call('<PathExchange as Swap>::apply', [Ref(Cell(sw)), sref])
    if k == 'swap_spawn_maint':
        sw = NB.S('SpawnVehicleForMaintenance', maintenance_slot=idx(op[1]), vehicle=vval(op[2])); return ex.call('<SpawnVehicleForMaintenance as Swap>::apply', [Ref(Cell(sw)), sref])
    if k == 'swap_hitch':
        sw = NB.S('AddTripForHitchHiking', node=idx(op[1]), vehicle=vval(op[2])); return ex.call('<AddTripForHitchHiking as Swap>::apply', [Ref(Cell(sw)), sref])
    if k == 'swap_remove_single':
        sw = NB.S('RemoveSingleNode', node=idx(op[1]), vehicle=vval(op[2])); return ex.call('<RemoveSingleNode as Swap>::apply', [Ref(Cell(sw)), sref])
    if k == 'improve_depots': return ok(ex.call('solution::schedule::modifications::<impl Schedule>::improve_depots', [sref, NONE()]))
    if k == 'recompute_transitions_for': return ok(ex.call('solution::schedule::modifications::<impl Schedule>::recompute_transitions_for', [sref, NONE()]))
    if k == 'reassign_end_depots_greedily': return ex.call('solution::schedule::modifications::<impl Schedule>::reassign_end_depots_greedily', [sref])
    if k == 'reassign_end_depots_consistent_with_transitions': return ok(ex.call('solution::schedule::modifications::<impl Schedule>::reassign_end_depots_consistent_with_transitions', [sref]))
    raise Unsupported('op ' + k)
def unpack(r):
    """(new schedule value or None, extra)"""
    if r.variant != 0: return None, None
    if not r.fields: raise Unsupported('unexpected result value %r' % r)
    v = r.fields[0]
    if isinstance(v, Agg) and v.ty == 'tuple': return v.fields[0], v.fields[1]
    return v, None

def replay_op(net, op, src, dst):
    nm = lambda n: net.info[n]['id']; k = op[0]; o = dict(op='schedule_op', schedule=src, name=dst)
    if k == 'spawn': o.update(what='spawn_vehicle_for_path', vt=op[1], nodes=[nm(n) for n in op[2]])
    elif k == 'spawn_dummy': o.update(what='spawn_vehicle_to_replace_dummy_tour', dummy=op[1], vt=op[2])
    elif k == 'to_dummy': o.update(what='replace_vehicle_by_dummy', vehicle=op[1])
    elif k == 'add_path': o.update(what='add_path_to_vehicle_tour', vehicle=op[1], nodes=[nm(n) for n in op[2]])
    elif k == 'remove_segment': o.update(what='remove_segment', vehicle=op[1], start=nm(op[2]), end=nm(op[3]))
    elif k in ('fit_reassign', 'override_reassign'): o.update(what=k, start=nm(op[1]), end=nm(op[2]), provider=op[3], receiver=op[4])
    elif k == 'set_transitions': o.update(what='set_transitions_move', vt=op[1], vehicle=op[2], cycle=op[3])
    elif k == 'swap_path_exchange': o.update(what=k, start=nm(op[1]), end=nm(op[2]), provider=op[3], receiver=op[4])
    elif k in ('swap_spawn_maint', 'swap_hitch', 'swap_remove_single'): o.update(what=k, node=nm(op[1]), vehicle=op[2])
    else: o.update(what=k)
    return o

# ------------------------------------------------------------------ op-specific effects (C13) and repeatability (C05)
def acts_of(net, nodes): return [n for n in nodes if not TS.is_depot(net, n)]
def effects(net, op, before, after, extra_val, ex):
    """list of (clause, python bool / formula) for one successful modification"""
    out = []; k = op[0]
    B = dict(before['tours']); B.update(before['dummies']); A = dict(after['tours']); A.update(after['dummies'])
    Ba = {v: acts_of(net, n) for v, n in B.items()}; Aa = {v: acts_of(net, n) for v, n in A.items()}
    touched = set()
    def fresh():
        if 'counter' in before: return 'veh_%d' % before['counter']
        n = [v for v in after['tours'] if v not in before['tours']]; return n[0] if len(n) == 1 else 'veh_?'
    if k == 'spawn':
        new = fresh(); touched = {new}
        out.append(('spawn: a new vehicle serves exactly the given path', new in after['tours'] and Aa.get(new) == acts_of(net, op[2]) and after['vehicles'].get(new) == op[1]))
        out.append(('spawn: an available depot given in the path is used', True))
    elif k == 'to_dummy':
        v = op[1]; touched = {v}; svc = [n for n in Ba[v] if net.info[n]['kind'] == 'Service']
        newd = [d for d in after['dummies'] if d not in before['dummies']]
        out.append(('replace_vehicle_by_dummy: the vehicle disappears and its service trips are handed back in a new dummy tour', v not in A and ((not svc and not newd) or (len(newd) == 1 and Aa[newd[0]] == svc))))
        touched |= set(newd)
    elif k == 'add_path':
        v = op[1]; touched = {v}; gained = acts_of(net, op[2])
        removed = acts_of(net, path_nodes(ex, extra_val.fields[0])) if (extra_val is not None and extra_val.variant == 1) else []
        out.append(('add_path: the vehicle gains the path, loses exactly the reported conflict nodes and nothing else', v in A and set(Aa[v]) == (set(Ba[v]) - set(removed)) | set(gained) and set(removed) <= set(Ba[v]) | set()))
    elif k == 'remove_segment':
        v = op[1]; i = B[v].index(op[2]); j = B[v].index(op[3]); segn = B[v][i:j+1]; touched = {v}
        newd = [d for d in after['dummies'] if d not in before['dummies']]; svc = [n for n in segn if net.info[n]['kind'] == 'Service']
        rest = [n for n in Ba[v] if n not in segn]
        if rest: out.append(('remove_segment: the vehicle loses exactly the segment', Aa.get(v) == rest))
        else:
            out.append(('remove_segment: a vehicle left without activities disappears', v not in A)); svc = [n for n in Ba[v] if net.info[n]['kind'] == 'Service']
        out.append(('remove_segment: removed service trips are handed back in a new dummy tour', (not svc and not newd) or (len(newd) == 1 and Aa[newd[0]] == svc)))
        touched |= set(newd)
    elif k in ('fit_reassign', 'override_reassign'):
        p, r = op[3], op[4]; i = B[p].index(op[1]); j = B[p].index(op[2]); segn = acts_of(net, B[p][i:j+1]); touched = {p, r}
        newd = [d for d in after['dummies'] if d not in before['dummies']]; touched |= set(newd)
        lost_p = [n for n in Ba[p] if n not in Aa.get(p, [])]; gained_r = [n for n in Aa.get(r, []) if n not in Ba[r]]; lost_r = [n for n in Ba[r] if n not in Aa.get(r, [])]
        if k == 'fit_reassign':
            out.append(('fit_reassign: the provider loses exactly the nodes the receiver gains, all from the segment', lost_p == gained_r and set(lost_p) <= set(segn)))
            out.append(('fit_reassign: the receiver loses none of its own nodes', lost_r == [] and r in A))
            out.append(('fit_reassign: no new dummy tour', newd == []))
        else:
            out.append(('override_reassign: the provider loses exactly the segment', lost_p == segn))
            out.append(('override_reassign: the receiver gains the whole segment', r in A and set(segn) <= set(Aa[r]) and set(gained_r) == set(segn) - set(Ba[r])))
            svc = [n for n in lost_r if net.info[n]['kind'] == 'Service' and n not in segn]
            # displaced nodes of a real receiver are handed back as a new dummy (service trips only); a dummy receiver's displaced trips likewise
            got = extra_val is not None and extra_val.variant == 1
            out.append(('override_reassign: displaced service trips are handed back in a new dummy tour whose id is returned',
                        (not svc and not newd and not got) or (len(newd) == 1 and got and vkey(extra_val.fields[0]) == newd[0] and Aa[newd[0]] == svc)))
        out.append(('reassign: a provider left without activities disappears', (p in A) == bool(Aa.get(p) if p in A else [n for n in Ba[p] if n not in lost_p])))
    elif k in ('improve_depots', 'reassign_end_depots_greedily', 'reassign_end_depots_consistent_with_transitions', 'recompute_transitions_for', 'set_transitions'):
        out.append(('depot-only operation changes no activity', Aa == Ba and after['formations'] == before['formations'] and after['vehicles'] == before['vehicles']))
        if k in ('recompute_transitions_for', 'set_transitions'): out.append(('recompute/replace transitions changes no tour', A == B))
        touched = set(A) | set(B)
    elif k.startswith('swap_'):
        return []
    elif k == 'spawn_dummy':
        d = op[1]; new = fresh(); touched = {d, new}
        out.append(('spawn_vehicle_to_replace_dummy_tour: the dummy disappears and a new vehicle serves its trips', d not in A and Aa.get(new) == Ba[d]))
    out.append(('all other vehicles\' tours stay untouched', all(A.get(v) == B[v] for v in B if v not in touched) and all(v in B or v in touched for v in A)))
    changed_nodes = set(n for v in touched for n in Ba.get(v, []) + Aa.get(v, []))
    out.append(('formations elsewhere stay untouched', all(after['formations'].get(n) == f for n, f in before['formations'].items() if n not in changed_nodes)))
    # order inside the touched formations
    okord = True
    for n, b in before['formations'].items():
        a = after['formations'].get(n)
        if a is None or a == b: continue
        rem = [x for x in b if x not in a]; add = [x for x in a if x not in b]
        if [x for x in b if x in a] != [x for x in a if x in b]: okord = False          # survivors keep their relative order
        if len(rem) == 1 and len(add) == 1 and k in ('fit_reassign', 'override_reassign') and rem[0] in before['tours'] and add[0] in before['tours']:
            if a != [add[0] if x == rem[0] else x for x in b]: okord = False             # replacement takes the position
        elif len(add) == 1 and not rem:
            if a != b + add: okord = False                                                # additions go to the tail
    out.append(('in a formation a replacing vehicle takes the replaced one\'s position, additions go to the tail, removals keep the order', okord))
    return out

def repeatable(net, after):
    """C05 on a schedule state: every vehicle ends in the depot where its successor in the cycle starts; start/end balance per (depot, type)"""
    out = []; T = after['tours']
    okc = True
    for t, tr in after['transitions'].items():
        for cyc in tr['cycles']:
            for i, v in enumerate(cyc):
                w = cyc[(i + 1) % len(cyc)]
                if v not in T or w not in T: okc = False; continue
                if net.info[T[v][-1]]['depot'] != net.info[T[w][0]]['depot']: okc = False
    out.append(('every vehicle ends its day in the depot where its successor in the cycle starts', okc))
    bal = {}
    for v, nodes in T.items():
        bal[(net.info[nodes[0]]['depot'], after['vehicles'][v])] = bal.get((net.info[nodes[0]]['depot'], after['vehicles'][v]), 0) + 1
        bal[(net.info[nodes[-1]]['depot'], after['vehicles'][v])] = bal.get((net.info[nodes[-1]]['depot'], after['vehicles'][v]), 0) - 1
    out.append(('as many vehicles end in a depot as start there, per type', all(x == 0 for x in bal.values())))
    return out

# ------------------------------------------------------------------ the job
FAMILIES = {'C09': 'aggregates', 'C10': 'invariants', 'C13': 'effects', 'C02': 'limits', 'C05': 'repeatable', 'C01': 'feasible'}
LIMIT_CLAUSES = ('formation limit respected', 'maintenance slot hosts', 'per-type depot capacity', 'total depot capacity')
FEAS_CLAUSES = ('every tour is depot', 'consecutive tour nodes', 'a vehicle only serves trips', 'every vehicle covers')

def clauses_for(props, net, ex, op, before, after, extra, input_after):
    """all (clause, formula) pairs of the requested property families for one step"""
    out = []
    inv = SS.invariants(net, after) if after is not None else []
    if 'C10' in props: out += [('invariant: ' + c, f) for c, f in inv]
    if 'C02' in props: out += [('limits: ' + c, f) for c, f in inv if c.startswith(LIMIT_CLAUSES)]
    if 'C01' in props: out += [('itinerary: ' + c, f) for c, f in inv if c.startswith(FEAS_CLAUSES)]
    if 'C09' in props and after is not None:
        out += [('aggregate: ' + c, f) for c, f in SS.aggregates(net, after)]
        if 'tour_vals' in after:
            for v, tv in sorted(after['tour_vals'].items()):
                out += [('aggregate: tour of a scheduled vehicle: ' + c, f) for c, f in aggregates_ok(ex, net, tv, after['tours'][v])]
        else:
            for v, tj in sorted(after['tour_json'].items()):
                ag = TS.aggregates(net, after['tours'][v])
                out += [('aggregate: tour of a scheduled vehicle: cached costs = recomputation', ag['costs'] == tj['costs']),
                        ('aggregate: tour of a scheduled vehicle: cached dead-head distance = recomputation', (tj['dead_head_distance'] == 'inf') if ag['dead_head_distance'] is TS.INF else (tj['dead_head_distance'] != 'inf' and ag['dead_head_distance'] == tj['dead_head_distance']))]
    if 'C13' in props:
        if after is not None: out += [('effect: ' + c, f) for c, f in effects(net, op, before, after, extra, ex)]
        out.append(('effect: the input schedule stays untouched', input_after))
    if 'C11' in props and op[0].startswith('swap_'):
        if after is not None:
            out += [('candidate: ' + c, f) for c, f in inv] + [('candidate: ' + c, f) for c, f in SS.aggregates(net, after)]
            if 'tour_vals' in after:
                for v, tv in sorted(after['tour_vals'].items()):
                    out += [('candidate: tour of a scheduled vehicle: ' + c, f) for c, f in aggregates_ok(ex, net, tv, after['tours'][v])]
        out.append(('candidate: the base schedule stays observably unchanged', input_after))
    if 'C05' in props and after is not None and op[0] == 'reassign_end_depots_consistent_with_transitions':
        out += [('repeatable: ' + c, f) for c, f in repeatable(net, after)]
        out.append(('repeatable: activities unchanged by the end-depot alignment', {v: acts_of(net, n) for v, n in after['tours'].items()} == {v: acts_of(net, n) for v, n in before['tours'].items()}))
    return out

def comparable(st):
    return {k: v for k, v in st.items() if k not in ('tour_vals', 'dummy_vals', 'unserved', 'maintenance_violation', 'costs', 'transitions')}, \
           (str(sx(st['costs'])), str(sx(st['unserved'][0])), str(sx(st['maintenance_violation'])))

ALL_PROPS = ['C09', 'C10', 'C13', 'C02', 'C05', 'C01', 'C11']
PREFIX = {'C11': ('candidate',), 'C09': ('aggregate',), 'C10': ('invariant',), 'C13': ('effect',), 'C02': ('limits',), 'C05': ('repeatable',), 'C01': ('itinerary',)}
def _cache_key(args):
    import hashlib, glob
    from .. import build
    h = hashlib.sha256(build.src_hash(['model', 'solution', 'solver']).encode())
    for f in sorted(glob.glob(os.path.join(build.VERIF, 'mirsym', '*.py')) + glob.glob(os.path.join(build.VERIF, 'mirsym', '*', '*.py')) + glob.glob(os.path.join(build.VERIF, 'replay', 'src', '*.rs'))):
        h.update(open(f, 'rb').read())
    h.update(json.dumps(args, sort_keys=True, default=str).encode())
    return h.hexdigest()[:24]
def job_script(name, tier, variant, prefix, props, lo=0, hi=200, explicit=None, swaps=False):
    """the exploration computes the clause families of all six schedule-level properties at once; its result is cached
    (keyed by a hash of /repo's current model+solution sources, of the machinery and of the job), and each property's
    check reads its own families from it - so a changed tree is always recomputed, an unchanged one is explored once"""
    import pickle
    from .. import build
    key = _cache_key([tier, variant, prefix, lo, hi, explicit, swaps])
    d = os.path.join(build.BUILD, 'cache'); os.makedirs(d, exist_ok=True); f = os.path.join(d, key + '.pkl')
    if os.path.exists(f) and os.environ.get('VERIF_NOCACHE') != '1':
        full = pickle.load(open(f, 'rb')); full['notes'] = list(full.get('notes', [])) + ['shared exploration reused (cache key %s)' % key]
    else:
        full = _job_script(name, tier, variant, prefix, ALL_PROPS, lo, hi, explicit, swaps)
        if not full.get('inconclusive'):
            tmp = f + '.%d' % os.getpid(); pickle.dump(full, open(tmp, 'wb')); os.replace(tmp, f)
    full['allow_empty'] = explicit is None or swaps
    return filter_result(full, props, name)
def filter_result(full, props, name):
    pre = tuple(p for q in props for p in PREFIX[q]) + ('',)
    r = dict(full); r['name'] = name
    fam = full.get('fam', {})
    r['obligations'] = sum(v[0] for k, v in fam.items() if k in pre); r['discharged'] = sum(v[1] for k, v in fam.items() if k in pre)
    r['allow_empty'] = True
    r['cex'] = [c for c in full.get('cex', []) if (c['clause'].split(':')[0] if ':' in c['clause'] else '') in pre]
    return r
def _job_script(name, tier, variant, prefix, props, lo, hi, explicit=None, swaps=False):
    """all scripts prefix + [i] for i < width (menu index at the last step; aborts when the menu is exhausted on every path)"""
    J = JobCtx(name, CRATES + (['solver'] if swaps else []), extra_models=LISTED_MODELS); ex = J.ex
    last_range = [None] if (explicit is not None and not swaps) else range(lo, hi)
    for last in last_range:
        vec = list(prefix) + ([] if last is None else [last])
        reached = [0]; ctx = {}; before_paths = J.paths
        def body():
            ex.pc_global = []; ex.inputs = {}
            net = NB.build(ex, mk_spec(tier, variant))
            s = ex.call('Schedule::empty', [net.arc])
            hist = []; st = read_schedule(ex, s); ctx['net'] = net; ctx['hist'] = hist
            for step, idx in enumerate(vec):
                ops = menu(net, st, tier, swaps=(swaps and step == len(vec) - 1))
                if isinstance(idx, (tuple, list)):
                    op = tuple(idx)
                    if op not in ops and not (op[0] in ('spawn', 'add_path') and all(x in st['tours'] for x in op[1:2] if isinstance(x, str))): raise PathAbort()    # explicit scripts stay inside the valid arguments
                    if any(isinstance(x, str) and x.startswith(('veh_', 'dummy_')) and x not in st['tours'] and x not in st['dummies'] for x in op[1:]): raise PathAbort()
                else:
                    if idx >= len(ops): raise PathAbort()
                    op = ops[idx]
                if op[0] == 'swap_spawn_maint':
                    # the neighbourhood only offers slots that still have a free track
                    ex.assume(Z(len(st['formations'].get(op[1], []))) < net.info[op[1]]['tracks'])
                before = st; cmp_before = comparable(before); ctx['pending'] = op
                r = apply_op(ex, net, s, op)
                if isinstance(r, Agg) and r.variant == 0 and not r.fields: raise Unsupported('op %s returned %r' % (op, r))
                input_after = comparable(read_schedule(ex, s)) == cmp_before
                ns, extra = unpack(r)
                after = read_schedule(ex, ns) if ns is not None else None
                hist.append(dict(op=op, before=before, after=after, extra=extra, input_after=input_after, ok=ns is not None))
                if ns is not None: s = ns; st = after
            return net, hist
        for pc, r in J.explore(body):
            if isinstance(r, Panic):
                def mkp(m, msg=r.msg, net=ctx.get('net'), hist=list(ctx.get('hist', [])), op=ctx.get('pending')):
                    if net is None: return None
                    ops = [dict(op='schedule_empty', name='S0')]; cur = 0
                    for i, h in enumerate(hist):
                        ops.append(replay_op(net, h['op'], 'S%d' % cur, 'S%d' % (i + 1)))
                        if h['ok']: cur = i + 1
                    ops.append(replay_op(net, op, 'S%d' % cur, 'SX'))
                    sc = dict(instance=NB.to_json(net, m), ops=ops); res = {}
                    for prof in ('dev', 'release'):
                        obs = replay.run(sc, prof); res[prof] = [o['panic'][:160] for o in obs if isinstance(o, dict) and 'panic' in o]
                    script = [h['op'] for h in hist] + [op]
                    return dict(signature='panic in %s: %s' % (op[0], msg[:60]), what='%s panics (%s) after the script %s' % (op[0], msg[:100], script), scenario=sc,
                                expect=dict(native=res), native_confirmed=all(res[p_] for p_ in res))
                J.panic(pc, r, clause='schedule modifications do not panic on valid arguments', mk_cex=mkp); continue
            net, hist = r; J.reached += 1; reached[0] += 1
            script = [h['op'] for h in hist]
            def native_eval(m, net=net, hist=hist):
                """replay the script natively (dev + release) and evaluate the same reference clauses on the observed states"""
                ops = [dict(op='schedule_empty', name='S0')]; cur = 0
                for i, h in enumerate(hist):
                    ops.append(replay_op(net, h['op'], 'S%d' % cur, 'S%d' % (i + 1)))
                    if h['ok']: cur = i + 1
                sc = dict(instance=NB.to_json(net, m), ops=ops); res = {}
                for prof in ('dev', 'release'):
                    obs = replay.run(sc, prof); bad = []
                    if any(isinstance(o, dict) and 'panic' in o for o in obs): bad.append('native panic: ' + [o for o in obs if isinstance(o, dict) and 'panic' in o][0]['panic'][:160])
                    else:
                        prev = native_state(net, obs[0])
                        for h, o in zip(hist, obs[1:]):
                            if ('ok' in o) != h['ok']: bad.append('%s: native %s, symbolic %s' % (h['op'][0], 'Ok' if 'ok' in o else 'Err', 'Ok' if h['ok'] else 'Err')); break
                            if 'ok' not in o: continue
                            after = native_state(net, o['ok']); inp = native_state(net, o['input_after'])
                            for c, f in clauses_for(props, net, ex, h['op'], prev, after, None, comparable_native(inp) == comparable_native(prev)):
                                if c.startswith('effect: add_path') or c.startswith('effect: override_reassign: displaced'): continue     # need the returned value, compared symbolically only
                                if mval(m, f) is not True: bad.append(c)
                            prev = after
                    res[prof] = bad
                return sc, res
            def mk(m, clause, hist=hist):
                sc, res = native_eval(m)
                confirmed = all(any(b == clause or b.startswith('native panic') or b.endswith('symbolic Ok') or b.endswith('symbolic Err') for b in res[p]) for p in res)
                return dict(signature='%s after %s' % (clause.split(':')[0] + ':' + clause.split(':')[1][:60] if ':' in clause else clause, [o[0] for o in script]), what='%s after the script %s' % (clause, script),
                            scenario=sc, expect=dict(native=res), native_confirmed=confirmed)
            for hi, h in enumerate(hist):
                J.covers.add('op:' + h['op'][0] + (':ok' if h['ok'] else ':err'))
                if (explicit is None or swaps) and hi < len(hist) - 1: continue       # earlier steps are the last steps of the shorter scripts
                for c, f in clauses_for(props, net, ex, h['op'], h['before'], h['after'], h['extra'], h['input_after']):
                    J.prove(pc, f, c, lambda m, c=c: mk(m, c))
            if any(TS.nowhere(net, n) for h in hist if h['after'] for nodes in h['after']['tours'].values() for n in nodes): J.covers.add('overflow depot used')
            J.witness(pc, lambda m: dict(scenario=native_eval(m)[0], check='script'), limit=1)
            J.sample('script %s' % script)
        if J.paths == before_paths and (explicit is None or swaps): break      # the menu is exhausted on every path
    return J.result()

def comparable_native(st):
    return {k: v for k, v in st.items() if k in ('vehicles', 'tours', 'dummies', 'formations', 'sorted', 'dummy_sorted', 'costs', 'unserved', 'maintenance_violation')}

def confirm(c):
    if 'native_confirmed' in c: return bool(c['native_confirmed']), json.dumps(c.get('expect', {}).get('native'))[:600]
    return False, 'no native evaluation'

def validate(w):
    """translator validation: the script replays natively without panic (the per-clause evaluation happens on counterexamples)"""
    obs = replay.run(w['scenario'], 'dev')
    return (not any(isinstance(o, dict) and 'panic' in o for o in obs)), str(obs)[:200]

def all_jobs(tier, seed, props):
    js = []
    n0 = 12; chunk = 2
    # quick: every script of length 1, every script of length 2 whose first operation is one of three representative spawns
    # (single trip, maintenance slot, trip with explicit depots); thorough: all first operations, length 3, two types
    js.append(dict(name='scripts len 1', func='job_script', kwargs=dict(tier=tier, variant=0, prefix=[], props=props, lo=0, hi=n0 + 8)))
    firsts = [0, 3, 6] if tier == 'quick' else list(range(n0))
    for i in firsts:
        for lo in range(0, 70, chunk): js.append(dict(name='scripts len 2, first op %d, second %d..%d' % (i, lo, lo + chunk - 1), func='job_script', kwargs=dict(tier=tier, variant=0, prefix=[i], props=props, lo=lo, hi=lo + chunk)))
    deep = ([d for i, d in enumerate(DEEP) if i != 2] if tier == 'quick' else DEEP + DEEP2) + DEEP_TYPES + DEEP_DEPOTS
    for k, sc in enumerate(deep): js.append(dict(name='deep script %d' % k, func='job_script', kwargs=dict(tier=tier, variant=sc[0], prefix=sc[1], props=props, explicit=True)))
    if tier == 'thorough':
        # measured: a chunk of 16 third operations after a productive prefix ran for 5-50 min; chunks of 4 keep the jobs balanced
        # (each job additionally has a wall-clock cap, see harness: a capped job is reported as not explored)
        for i in (0, 3):
            for j in range(0, 32, 2):
                for lo in range(0, 72, 4): js.append(dict(name='scripts len 3, first ops %d %d, third %d..%d' % (i, j, lo, lo + 3), func='job_script', kwargs=dict(tier=tier, variant=0, prefix=[i, j], props=props, lo=lo, hi=lo + 4)))
        for i in range(0, 16, 2):
            for lo in range(0, 72, 4): js.append(dict(name='two types: scripts len 2, first op %d, second %d..%d' % (i, lo, lo + 3), func='job_script', kwargs=dict(tier=tier, variant=1, prefix=[i], props=props, lo=lo, hi=lo + 4)))
    return js

# explicit deeper scripts: (variant, [ops]); node numbers follow netbuild (variant 0: depots 0..3, trips 4,5,6, slot 7)
DEEP = [
    (0, [('spawn', 0, [4]), ('spawn', 0, [5]), ('override_reassign', 5, 5, 'veh_1', 'veh_0'), ('reassign_end_depots_consistent_with_transitions',)]),
    (0, [('spawn', 0, [4]), ('spawn', 0, [5]), ('fit_reassign', 5, 5, 'veh_1', 'veh_0'), ('improve_depots',)]),
    (0, [('spawn', 0, [4, 5]), ('spawn', 0, [6]), ('override_reassign', 4, 4, 'veh_0', 'veh_1'), ('reassign_end_depots_consistent_with_transitions',)]),
    (0, [('spawn', 0, [4]), ('spawn', 0, [7]), ('spawn', 0, [5]), ('reassign_end_depots_consistent_with_transitions',)]),
    (0, [('spawn', 0, [4]), ('to_dummy', 'veh_0'), ('spawn_dummy', 'dummy_1', 0), ('reassign_end_depots_greedily',)]),
    (0, [('spawn', 0, [4]), ('spawn', 0, [4]), ('remove_segment', 'veh_0', 4, 4), ('recompute_transitions_for',)]),
    (0, [('spawn', 0, [4, 5]), ('remove_segment', 'veh_0', 4, 4), ('to_dummy', 'veh_0')]),
    (0, [('spawn', 0, [4]), ('spawn', 0, [7]), ('set_transitions', 0, 'veh_0', 1), ('reassign_end_depots_consistent_with_transitions',)]),
    (0, [('spawn', 0, [4]), ('spawn', 0, [5]), ('set_transitions', 0, 'veh_1', 0)]),
    (0, [('spawn', 0, [4, 5]), ('remove_segment', 'veh_0', 5, 5), ('spawn', 0, [6]), ('override_reassign', 6, 6, 'veh_2', 'veh_0')]),
    # a trip shared by two vehicles; the FIRST vehicle of its formation hands it to a third, real vehicle (formation order: replace, not remove + add)
    (0, [('spawn', 0, [4]), ('spawn', 0, [4]), ('spawn', 0, [5]), ('override_reassign', 4, 4, 'veh_0', 'veh_2')]),
    (0, [('spawn', 0, [4]), ('spawn', 0, [4]), ('spawn', 0, [5]), ('fit_reassign', 4, 4, 'veh_0', 'veh_2')]),
    # the receiver loses a MAINTENANCE SLOT through the conflict with the moved trip (no dummy tour is created for a displaced slot)
    (0, [('spawn', 0, [7]), ('spawn', 0, [4]), ('override_reassign', 4, 4, 'veh_1', 'veh_0')]),
]
# two vehicle types (variant 1: depots 0..5, trips 6,7 of type 0, trip 8 of type 1, slot 9): type compatibility across reassignments
DEEP_TYPES = [      # variant 2: depots 0..3, trip 4 of type 0, trip 5 of type 1, slot 6
    (2, [('spawn', 0, [4]), ('spawn', 1, [5]), ('to_dummy', 'veh_0'), ('fit_reassign', 4, 4, 'dummy_2', 'veh_1')]),
    (2, [('spawn', 0, [4]), ('spawn', 1, [5]), ('to_dummy', 'veh_0'), ('override_reassign', 4, 4, 'dummy_2', 'veh_1')]),
    (2, [('spawn', 0, [4]), ('spawn', 1, [5]), ('override_reassign', 4, 4, 'veh_0', 'veh_1')]),
    (2, [('spawn', 0, [4]), ('spawn', 1, [6]), ('fit_reassign', 6, 6, 'veh_1', 'veh_0'), ('reassign_end_depots_consistent_with_transitions',)]),
]
# variant 4: depots 0..5 (two real depots of capacity 1, overflow), trips 6,7, slot 8
DEEP_DEPOTS = [
    (4, [('spawn', 0, [6]), ('spawn', 0, [7]), ('reassign_end_depots_consistent_with_transitions',)]),
    (4, [('spawn', 0, [2, 6, 3]), ('spawn', 0, [7]), ('improve_depots',)]),
]
DEEP2 = [
    (1, [('spawn', 0, [6]), ('spawn', 1, [8]), ('spawn', 0, [7]), ('reassign_end_depots_consistent_with_transitions',)]),
    (1, [('spawn', 0, [6]), ('spawn', 0, [7]), ('override_reassign', 7, 7, 'veh_1', 'veh_0'), ('improve_depots',)]),
]

# ------------------------------------------------------------------ C11: base states (explicit prefixes) followed by every candidate of the local-search neighbourhood
SWAP_BASES = [
    (0, [('spawn', 0, [4])]),
    (0, [('spawn', 0, [4]), ('spawn', 0, [5])]),
    (0, [('spawn', 0, [4]), ('spawn', 0, [7])]),
    (0, [('spawn', 0, [4]), ('to_dummy', 'veh_0'), ('spawn', 0, [5])]),
    (0, [('spawn', 0, [4, 5])]),
    (3, [('spawn', 0, [4, 5]), ('to_dummy', 'veh_0'), ('spawn', 0, [6])]),       # a dummy tour with two trips as provider (lean instance)
    (3, [('spawn', 0, [4]), ('spawn', 0, [5])]),                                  # two vehicles (lean instance)
]
SWAP_BASES2 = [
    (0, [('spawn', 0, [4]), ('spawn', 0, [4]), ('spawn', 0, [7])]),
    (0, [('spawn', 0, [4, 5]), ('spawn', 0, [6])]),
    (2, [('spawn', 0, [4]), ('spawn', 1, [5])]),
]
ALLK = ['swap_spawn_maint', 'swap_path_exchange', 'swap_hitch', 'swap_remove_single']
NOMAINT = ['swap_path_exchange', 'swap_hitch', 'swap_remove_single']
def swap_jobs(tier, seed, props):
    js = []
    if tier == 'quick': plan = [(0, ALLK), (6, NOMAINT), (2, ALLK), (3, NOMAINT), (5, dict(kinds=['swap_path_exchange'], provider='dummy'))]
    else: plan = [(k, ALLK) for k in range(len(SWAP_BASES + SWAP_BASES2))]
    bases = SWAP_BASES + SWAP_BASES2
    for k, kinds in plan:
        variant, prefix = bases[k]
        for lo in range(0, 40):
            js.append(dict(name='candidate %d of base %d' % (lo, k), func='job_script', kwargs=dict(tier=tier, variant=variant, prefix=prefix, props=props, lo=lo, hi=lo + 1, explicit=True, swaps=kinds)))
    return js
