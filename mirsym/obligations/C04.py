"""C04 — the reported objective value is the true value of the returned schedule.

Own obligations: the four indicators read exactly the cached aggregates (coefficient 1 each, documented level order).
Composition: the aggregates equal recomputation after every modification history within the bound (C09, C15), and the
value is evaluated on exactly the schedule that is serialised (C16)."""
import z3
from ..core import *
from .. import models as M, netbuild as NB
from ..harness import JobCtx

PROPERTY = 'C04'
MIR = [('solver', 'on'), ('rapid_solve', 'on'), ('solution', 'on'), ('model', 'on'), ('rapid_time', 'on'), ('solver', 'off'), ('rapid_solve', 'off'), ('solution', 'off')]
CRATES = ['solver', 'rapid_solve', 'solution']
ASSUMPTIONS = ['decomposed: cached aggregates = recomputation is C09 (tour and schedule level) and C15 (rotation cycles); "evaluated on the schedule that is returned" is C16; here the indicators and the level structure',
               'the Schedule value is abstract: its cached fields are symbolic (two unserved figures < 2^31 each so that their u32 sum cannot overflow, i64 violation, costs < 2^62, 0..3 vehicles)']
BOUNDS = {'quick': 'indicators: symbolic cached fields, 0..3 vehicles; aggregates: the schedule-level scripts of C09/C10 quick', 'thorough': 'aggregates: C09/C10 thorough'}
OUTSIDE = 'whole-run histories (bounded in C09); floating-point / duration base values are not used by this objective'
LEVELS = ['UnservedPassengersIndicator', 'MaintenanceViolationIndicator', 'VehicleCountIndicator', 'CostsIndicator']

from . import schedops as SO
from .schedops import job_script
def jobs(tier, seed):
    # own obligations + the schedule-level aggregate family of the shared exploration (cached figures = recomputation after every script)
    return [dict(name='indicators', func='job_indicators', kwargs={}), dict(name='objective_build', func='job_build', kwargs={})] + SO.all_jobs(tier, seed, ['C09'])

def abstract_schedule(ex, nveh):
    a = sym_int(ex, 'unserved_cap', 'u32', 0, 2**31 - 1); b = sym_int(ex, 'unserved_seat', 'u32', 0, 2**31 - 1)
    mv = sym_int(ex, 'maintenance_violation', 'i64', -2**62, 2**62); costs = sym_int(ex, 'costs', 'u64', 0, 2**62)
    vals = {f: Opaque('Schedule.' + f) for f in STRUCTS['Schedule']}
    vals.update(unserved_passengers=tup(a, b), maintenance_violation=mv, costs=costs,
                vehicles=MapVal([(NB.vehidx(i), Cell(Opaque('vehicle'))) for i in range(nveh)], name='vehicles'))
    sched = Agg('Schedule', None, [vals[f] for f in STRUCTS['Schedule']])
    swi = Agg('ScheduleWithInfo', None, [dict(schedule=sched, last_swap_info=Opaque('info'), print_text=StrVal('t'))[f] for f in STRUCTS['ScheduleWithInfo']])
    return swi, a.e, b.e, mv.e, costs.e

def job_indicators(name, mode='on'):
    J = JobCtx(name, CRATES, mode=mode); ex = J.ex
    fns = {}
    for k, v in ex.fns.items():
        if k.endswith('::evaluate') and 'solver/src/objective.rs' in k:
            ik = impl_key(k); tr, ty = IMPLS.get(ik, (None, None))
            if ty in LEVELS: fns[ty] = v[0]
    if sorted(fns) != sorted(LEVELS): raise Unsupported('indicator impls found: %s' % sorted(fns))
    for nveh in range(4):
        for ind in LEVELS:
            def body():
                ex.pc_global = []; ex.inputs = {}
                swi, a, b, mv, costs = abstract_schedule(ex, nveh)
                r = ex.call_fn(fns[ind], [Ref(Cell(Opaque(ind))), Ref(Cell(swi))])
                return r, a, b, mv, costs
            for pc, r in J.explore(body):
                if isinstance(r, Panic):
                    # u32 addition of the two unserved figures may overflow only beyond 2^32 passengers in total: report it
                    J.panic(pc, r, clause='indicator: evaluation does not panic'); continue
                val, a, b, mv, costs = r; J.reached += 1
                en = ENUMS['BaseValue']; isint = isinstance(val, Agg) and val.variant == en.index('Integer')
                want = {'UnservedPassengersIndicator': a + b, 'MaintenanceViolationIndicator': mv, 'VehicleCountIndicator': z3.IntVal(nveh), 'CostsIndicator': costs}[ind]
                if isint and not isinstance(val.fields[0], Scalar): raise Unsupported('%s returned %r' % (ind, val.fields[0]))
                J.prove(pc, z_and(isint, (Z(val.fields[0].e) == want) if isint else False), 'indicator: %s reads exactly the cached figure' % ind)
                J.sample('%s on a schedule with %d vehicles -> Integer(%s)' % (ind, nveh, sx(val.fields[0].e) if isint else val))
    return J.result()

def read_objective(ex, obj):
    """[(coefficient value, indicator type name)] per level"""
    levels = []
    for lc in F_(obj, 'Objective', 'hierarchy_levels').cells:
        summ = []
        for c in ex.strip(lc.v).fields[0].cells if False else F_(lc.v, 'LinearCombination', 'summands').cells:
            coef, ind = c.v.fields
            ind = ex.strip(ind)
            summ.append((coef.variant, conc(coef.fields[0]), (ind.what if isinstance(ind, Opaque) else getattr(ind, 'ty', str(ind))).split('::')[-1]))
        levels.append(summ)
    return levels
def F_(v, sname, fname): return v.fields[STRUCTS[sname].index(fname)]

def job_build(name, mode='on'):
    J = JobCtx(name, CRATES, mode=mode); ex = J.ex
    cands = [v[0] for k, v in ex.fns.items() if k == 'objective::build']
    if len(cands) != 1: raise Unsupported('objective::build: %d candidates' % len(cands))
    def body():
        ex.pc_global = []; ex.inputs = {}
        return ex.call_fn(cands[0], [])
    for pc, r in J.explore(body):
        if isinstance(r, Panic): J.panic(pc, r, clause='objective: build does not panic'); continue
        J.reached += 1
        levels = read_objective(ex, r)
        want = [[(ENUMS['Coefficient'].index('Integer'), 1, n)] for n in LEVELS]
        J.prove(pc, levels == want, 'objective: four levels in the documented order, each one indicator with coefficient 1')
        J.sample('objective::build -> %s' % levels)
    return J.result()

def confirm(c):
    if 'native_confirmed' in c: return SO.confirm(c)
    from ..harness import confirm_on_other_flavour
    return confirm_on_other_flavour('mirsym.obligations.C04', c['job_func'], c.get('job_kwargs', {}), c['clause'])
def validate(w): return SO.validate(w)
