"""C10 — every reachable schedule satisfies the structural invariants."""
from .schedops import *
from . import schedops as SO
PROPERTY = 'C10'
ASSUMPTIONS = ['network value built by netbuild (equal to Network::new by C17), full level (sorted listings by the real cmp_start_time / Ord from MIR)',
               'every state is produced from Schedule::empty by real public modifications executed symbolically; arguments are drawn from a menu computed from the actual state (valid vehicles, segments of their tours, compatible and incompatible paths)',
               'vehicle capacity/seats concrete (5/7, 11/3); passengers, limits, depot capacities, times, locations, dead-heads symbolic']
BOUNDS = {'quick': '1 type, 1 real depot (capacity 0..2, per-type 0..2) + overflow, 3 trips + 1 slot, 2 locations: all scripts of length 1, all scripts of length 2 whose first operation is one of three representative spawns (single trip / maintenance slot / trip with explicit depots), + 5 explicit scripts of length 4; only the last step of an enumerated script is checked (its prefixes are scripts of their own)',
          'thorough': 'all scripts of length 2; scripts of length 3 whose first operation is one of two representative spawns and whose second is every second of the first 32 menu entries; the two-type / two-depot instance with the scripts of length 2 after every second first operation; all explicit scripts. Each job is capped at 30 min and the run at 2.5 h: what was cut is listed in the evidence, never counted as held'}
OUTSIDE = 'longer histories, larger instances (not claimed; no inductive generalisation)'
REQUIRED_COVERS = {'quick': ['op:spawn:ok', 'op:spawn:err', 'op:to_dummy:ok', 'op:add_path:ok', 'op:remove_segment:ok', 'op:fit_reassign:ok', 'op:override_reassign:ok', 'op:improve_depots:ok', 'op:reassign_end_depots_consistent_with_transitions:ok', 'overflow depot used']}
REQUIRED_COVERS['thorough'] = REQUIRED_COVERS['quick']
def jobs(tier, seed): return SO.all_jobs(tier, seed, ['C10'])
