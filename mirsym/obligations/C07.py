"""C07 — passenger demand is covered as far as formation limits allow.

Kernel obligations: (a) every trip edge of the start-solution circulation has bounds [min(required, limit), limit] with
limit = min of the present limits (C14 construction job, re-run here); (b) arithmetic lemma, decided by z3 over all
passenger numbers: a formation of f vehicles with min(required, limit) <= f <= limit leaves exactly the instance's
per-segment lower bound of unserved passengers (0 if required <= limit, the shortfall of `limit` vehicles otherwise);
(c) unserved passengers are the first objective level (C04/C08) so that no later accepted step gives up covered demand;
(d) the cached unserved figure equals recomputation (C09)."""
import z3
from ..core import *
from ..harness import JobCtx
from .C14 import job_construction, CRATES, MIR as _MIR
from . import C14 as _C14
PROPERTY = 'C07'
MIR = _MIR
ASSUMPTIONS = _C14.ASSUMPTIONS + ['decomposed; that network_simplex returns a feasible circulation and that every later stage keeps the coverage on a whole run is outside (the lexicographic acceptance rule is C08)']
BOUNDS = {'quick': 'construction as C14 quick; lemma: passengers and seated passengers < 2^20, capacity/seats from {(1,1),(5,7),(7,5),(100,80)}, limits and formation sizes 0..100', 'thorough': 'construction with 1 and 2 trips (3 trips did not finish within the 30-minute job cap, measured); lemma: three more capacity pairs'}
OUTSIDE = 'whole solve runs; the simplex itself'
def jobs(tier, seed):
    js = [dict(name='construction %d trips, slot allotted=%d' % (nt, al), func='job_construction', kwargs=dict(tier=tier, ntrips=nt, allot=al)) for nt, al in ((1, 0), (2, 0))]      # 3 trips: does not finish within the 30-minute job cap (measured)
    js.append(dict(name='coverage lemma', func='job_lemma', kwargs=dict(tier=tier)))
    return js
def job_lemma(name, tier):
    J = JobCtx(name, ['model']); pairs = [(1, 1), (5, 7), (7, 5), (100, 80)] + ([(3, 1000), (999, 1), (64, 64)] if tier == 'thorough' else [])
    for cap, seats in pairs:
        p, s, f, lim = z3.Ints('p s f lim'); has = z3.Bool('has_limit')
        pre = z3.And(p >= 1, p < 2**20, s >= 0, s < 2**20, f >= 0, f <= 100, lim >= 0, lim <= 100)
        a = (p + cap - 1) / cap; b = (s + seats - 1) / seats; req = z3.If(a >= b, a, b)
        L = z3.If(has, lim, 100)                     # the flow's upper bound (100 stands for "no limit")
        lower = z3.If(req < L, req, L)
        unserved = lambda k: z3.If(p > k * cap, p - k * cap, 0) + z3.If(s > k * seats, s - k * seats, 0)
        # symbolic x constant only: f * cap with cap concrete
        J.prove([pre, lower <= f, f <= L, req <= L], unserved(f) == 0, 'lemma: if the required vehicles fit the limit, any admissible formation leaves no passenger unserved')
        J.prove([pre, lower <= f, f <= L, req > L], z3.And(f == L, unserved(f) == unserved(L)), 'lemma: otherwise the formation has exactly limit vehicles and the unserved passengers equal the instance lower bound')
        J.prove([pre, f < lower, req <= 100], unserved(f) > unserved(lower), 'lemma: fewer vehicles than the lower bound leave strictly more passengers unserved (the bound is tight)')
        J.reached += 1
        J.sample('capacity %d seats %d: for all p,s < 2^20, limits 0..100' % (cap, seats))
    return J.result()
def confirm(c):
    from ..harness import confirm_on_other_flavour
    if c.get('job_func') != 'job_construction': return True, 'arithmetic lemma: the solver model is the counterexample (no code involved)'
    return confirm_on_other_flavour('mirsym.obligations.C14', c['job_func'], c.get('job_kwargs', {}), c['clause'])
