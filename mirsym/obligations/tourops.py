"""Shared machinery for the tour-level obligations of C12 (reference semantics) and C09 (cached aggregates)."""
import z3, itertools, json
from ..core import *
from .. import models as M, netbuild as NB, replay
from ..harness import JobCtx
from ..specs import tour as TS

CRATES = ['rapid_time', 'model', 'solution']
MIR = [('rapid_time', 'on'), ('model', 'on'), ('solution', 'on')]

def mval(m, e):
    if isinstance(e, (int, bool, str)): return e
    v = m.eval(e, model_completion=True)
    if z3.is_int_value(v): return v.as_long()
    if z3.is_true(v): return True
    if z3.is_false(v): return False
    return str(v)

# ------------------------------------------------------------------ shapes
def mk_spec(tier, n_service, n_maint, ndepots=1, nloc=2):
    kw = dict(nloc=nloc, trips=[dict(vt=0) for _ in range(n_service)], maint=n_maint, depots=[dict() for _ in range(ndepots)], maxdist='sym')
    sp = NB.Spec(**kw); sp.maxdist_max = 4096
    if tier == 'thorough': sp.tmax = 86400 - 8192; sp.dmax = 8191; sp.ttmax = 8192; sp.shmax = 2048; sp.ddmax = 100000; sp.distmax = 100000; sp.maxdist_max = 300000
    return sp

def assign(net, tour, path):
    """map the activity letters of the tour / path shapes to node numbers"""
    trips = list(net.trips); maints = list(net.maint)
    def depot(which, start):
        d = net.depots[-1] if which == 'overflow' else net.depots[int(which[4:]) if which.startswith('real') and len(which) > 4 else 0]
        return d['start'] if start else d['end']
    def acts(letters):
        out = []
        for l in letters: out.append(trips.pop(0) if l == 'S' else maints.pop(0))
        return out
    T = acts(tour['acts'])
    if not tour.get('dummy'): T = [depot(tour.get('sd', 'real'), True)] + T + [depot(tour.get('ed', 'real'), False)]
    P = None
    if path is not None:
        P = acts(path['acts'])
        if path.get('lead'): P = [depot(path['lead'], True)] + P
        if path.get('trail'): P = P + [depot(path['trail'], False)]
    return T, P

def count(shape, letter): return sum(1 for l in shape['acts'] if l == letter) if shape else 0

# ------------------------------------------------------------------ reading values
def F(v, sname, fname): return v.fields[STRUCTS[sname].index(fname)]
def node_ids(ex, vecval): return [conc(c.v.fields[0]) for c in vecval.cells]
def tour_nodes(ex, t): return node_ids(ex, F(t, 'Tour', 'nodes'))
def path_nodes(ex, p): return node_ids(ex, F(p, 'Path', 'node_sequence'))
def dist_eq(d, spec):
    if isinstance(d, Lazy): raise Unsupported('lazy distance')
    if spec is TS.INF: return d.variant == 1
    if d.variant != 0: return False
    return d.fields[0].e == spec
def dur_eq(d, spec):
    if d.variant != 0: return False
    return d.fields[0].fields[0].e == spec
def aggregates_ok(ex, net, t, nodes):
    """list of (clause, z3 Bool) comparing the cached figures of tour value t with recomputation"""
    ag = TS.aggregates(net, nodes)
    return [('cached useful duration = recomputation', dur_eq(F(t, 'Tour', 'useful_duration'), ag['useful_duration'])),
            ('cached service distance = recomputation', dist_eq(F(t, 'Tour', 'service_distance'), ag['service_distance'])),
            ('cached dead-head distance = recomputation', dist_eq(F(t, 'Tour', 'dead_head_distance'), ag['dead_head_distance'])),
            ('cached costs = recomputation', F(t, 'Tour', 'costs').e == ag['costs']),
            ('cached visits-maintenance flag = recomputation', Z(F(t, 'Tour', 'visits_maintenance').e) == z3.BoolVal(ag['visits_maintenance']))]
def expected_aggregates(net, nodes, m):
    ag = TS.aggregates(net, nodes)
    return dict(useful_duration=mval(m, ag['useful_duration']), service_distance=mval(m, ag['service_distance']),
                dead_head_distance='inf' if ag['dead_head_distance'] is TS.INF else mval(m, ag['dead_head_distance']),
                costs=mval(m, ag['costs']), visits_maintenance=ag['visits_maintenance'])
def names(net, nodes): return [net.info[n]['id'] for n in nodes]
def symbolic_aggregates(t, m):
    """the executor's own values of the cached figures under a model"""
    def dv(d): return 'inf' if d.variant == 1 else mval(m, d.fields[0].e)
    u = F(t, 'Tour', 'useful_duration')
    return dict(useful_duration='inf' if u.variant == 1 else mval(m, u.fields[0].fields[0].e), service_distance=dv(F(t, 'Tour', 'service_distance')),
                dead_head_distance=dv(F(t, 'Tour', 'dead_head_distance')), costs=mval(m, F(t, 'Tour', 'costs').e), visits_maintenance=mval(m, F(t, 'Tour', 'visits_maintenance').e))

# ------------------------------------------------------------------ construction inside a path
def build_tour(ex, net, T, dummy):
    if dummy:
        p = ex.call('path::Path::new', [VecVal([Cell(net.info[n]['idx']) for n in T]), net.arc])
        if p.variant != 0 or p.fields[0].variant != 1: raise PathAbort()
        r = ex.call('Tour::new_dummy', [p.fields[0].fields[0], net.arc])
    else:
        r = ex.call('Tour::new', [VecVal([Cell(net.info[n]['idx']) for n in T]), net.arc])
    if r.variant != 0: raise PathAbort()          # precondition: the real constructor accepts the node sequence
    return r.fields[0]
def build_path(ex, net, P):
    pr = ex.call('path::Path::new', [VecVal([Cell(net.info[n]['idx']) for n in P]), net.arc])
    if pr.variant != 0 or pr.fields[0].variant != 1: raise PathAbort()
    return pr.fields[0].fields[0]
def seg(net, a, b): return NB.S('Segment', start=net.info[a]['idx'], end=net.info[b]['idx'])

def scenario(net, m, T, dummy, P=None, ops=()):
    o = [dict(op='tour_new_dummy' if dummy else 'tour_new', name='T', nodes=names(net, T))]
    if P is not None: o.append(dict(op='path_new', name='P', nodes=names(net, P)))
    return dict(instance=NB.to_json(net, m), ops=o + list(ops))

def shape_sig(tour, path=None):
    s = ('dummy' if tour.get('dummy') else 'tour[%s|%s|%s]' % (tour.get('sd', 'real'), ''.join(tour['acts']), tour.get('ed', 'real')))
    if path is not None: s += ' path[%s|%s|%s]' % (path.get('lead') or '-', ''.join(path['acts']), path.get('trail') or '-')
    return s

# ------------------------------------------------------------------ jobs
def job_insert(name, tier, tour, path, props):
    J = JobCtx(name, CRATES); ex = J.ex
    dummy = bool(tour.get('dummy'))
    def body():
        ex.pc_global = []; ex.inputs = {}
        net = NB.build(ex, mk_spec(tier, count(tour, 'S') + count(path, 'S'), count(tour, 'M') + count(path, 'M')))
        T, P = assign(net, tour, path)
        t = build_tour(ex, net, T, dummy); p = build_path(ex, net, P)
        res = ex.call('Tour::insert_path', [Ref(Cell(t)), p])
        return net, T, P, t, res
    sig0 = shape_sig(tour, path)
    for pc, r in J.explore(body):
        if isinstance(r, Panic):
            def mkp(m, msg=r.msg):
                # rebuild a scenario from the model: needs the net of this path; panics carry no state, so re-run concretely is left to the replay
                return None
            J.panic(pc, r, clause='insert_path does not panic on a valid tour and a valid path'); continue
        net, T, P, t, res = r; J.reached += 1
        nt, removed = res.fields[0], res.fields[1]
        got = tour_nodes(ex, nt)
        rem = path_nodes(ex, removed.fields[0]) if removed.variant == 1 else []
        Pe = list(P)
        if dummy:
            if TS.is_depot(net, Pe[0]): Pe = Pe[1:]
            if TS.is_depot(net, Pe[-1]): Pe = Pe[:-1]
        # locate the path in the result
        ok_struct = False; s = e = None
        for s_ in range(len(got) - len(Pe) + 1):
            if got[s_:s_ + len(Pe)] == Pe:
                s = s_; e = len(T) - (len(got) - s_ - len(Pe)); ok_struct = got[:s] == T[:s] and got[s + len(Pe):] == T[e:] and 0 <= s <= e <= len(T)
                break
        def mk(m, net=net, T=T, P=P, what='', clause_sig=''):
            exp_nodes, exp_rem = TS.insert_expected(net, T, P, dummy, lambda x: mval(m, x))
            tie = any(mval(m, net.info[a]['et']) == mval(m, net.info[b]['st']) for a in T + P for b in T + P if not TS.is_depot(net, a) and not TS.is_depot(net, b) and a != b)
            return dict(signature=sig0 + clause_sig + (' (times tie)' if tie else ''), what=what,
                        scenario=scenario(net, m, T, dummy, P, [dict(op='tour_insert_path', tour='T', path='P')]),
                        expect=dict(kind='insert', nodes=names(net, exp_nodes), removed=names(net, exp_rem) if any(not TS.is_depot(net, x) for x in exp_rem) else None,
                                    aggregates=expected_aggregates(net, exp_nodes, m)))
        if 'C12' in props:
            if not ok_struct:
                J.prove(pc, z3.BoolVal(False), 'insert_path: result = prefix ++ path ++ suffix of the old tour', lambda m: mk(m, what='result is not prefix ++ path ++ suffix', clause_sig=' structure'))
            else:
                J.prove(pc, TS.insert_spec(net, T, Pe, s, e, dummy), 'insert_path: longest prefix reaching the path, longest suffix reached by it (connectable nodes are never dropped)',
                        lambda m: mk(m, what='insert_path keeps a shorter prefix/suffix than the statement demands (a connectable node is dropped) or a longer one', clause_sig=' prefix/suffix'))
                exp_rem = T[s:e]
                rem_ok = (rem == exp_rem) if any(not TS.is_depot(net, x) for x in exp_rem) else (removed.variant == 0)
                J.prove(pc, z3.BoolVal(rem_ok), 'insert_path: reports exactly the dropped nodes', lambda m: mk(m, what='reported removed nodes differ from the dropped nodes', clause_sig=' removed'))
                if not dummy:
                    st, conn = TS.valid_tour(net, got)
                    J.prove(pc, z3.And(z3.BoolVal(st), conn), 'insert_path: result is a valid tour (depot..depot, consecutive nodes connectable)', lambda m: mk(m, what='result of insert_path is not a valid tour', clause_sig=' validity'))
                if e - s > 0: J.covers.add('insert: conflict removed')
        if any(TS.nowhere(net, x) for x in got): J.covers.add('insert: overflow depot in result')
        if 'C09' in props and ok_struct:
            for clause, f in aggregates_ok(ex, net, nt, got):
                J.prove(pc, f, 'insert_path: ' + clause, lambda m, clause=clause: mk(m, what='after insert_path: ' + clause + ' violated', clause_sig=' ' + clause.split(' = ')[0]))
            if any(TS.nowhere(net, x) for x in T) and not any(TS.nowhere(net, x) for x in got): J.covers.add('insert: overflow depot replaced by a real depot')
        def wit(m, net=net, T=T, P=P, nt=nt, got=got, rem=rem):
            return dict(kind='insert', scenario=scenario(net, m, T, dummy, P, [dict(op='tour_insert_path', tour='T', path='P')]),
                        symbolic=dict(nodes=names(net, got), removed=names(net, rem) if rem else None, aggregates=symbolic_aggregates(nt, m)))
        J.witness(pc, wit)
        J.sample('%s: insert_path -> nodes %s removed %s (symbolic times/locations/matrix)' % (sig0, got, rem))
    return J.result()

def job_remove(name, tier, tour, props):
    J = JobCtx(name, CRATES); ex = J.ex
    dummy = bool(tour.get('dummy')); n = len(tour['acts']) + (0 if dummy else 2)
    lo, hi = (0, n - 1) if dummy else (1, n - 2)
    sig0 = shape_sig(tour)
    for i in range(lo, hi + 1):
        for j in range(i, hi + 1):
            def body():
                ex.pc_global = []; ex.inputs = {}
                net = NB.build(ex, mk_spec(tier, count(tour, 'S'), count(tour, 'M')))
                T, _ = assign(net, tour, None)
                t = build_tour(ex, net, T, dummy)
                res = ex.call('Tour::remove', [Ref(Cell(t)), seg(net, T[i], T[j])])
                sub = ex.call('Tour::sub_path', [Ref(Cell(t)), seg(net, T[i], T[j])])
                chk = ex.call('Tour::check_removable', [Ref(Cell(t)), seg(net, T[i], T[j])])
                return net, T, t, res, sub, chk
            for pc, r in J.explore(body):
                if isinstance(r, Panic): J.panic(pc, r, clause='remove/sub_path do not panic on an existing segment'); continue
                net, T, t, res, sub, chk = r; J.reached += 1
                refused, rest, removed = TS.remove_spec(net, T, i, j, dummy)
                def mk(m, net=net, T=T, what='', clause_sig=''):
                    ref = mval(m, refused)
                    exp = dict(kind='remove', refused=bool(ref), nodes=names(net, rest) if rest else None, removed=names(net, removed),
                               aggregates=expected_aggregates(net, rest, m) if rest else None, sub_path=names(net, T[i:j+1]))
                    return dict(signature=sig0 + ' remove[%d..%d]' % (i, j) + clause_sig, what=what,
                                scenario=scenario(net, m, T, dummy, None, [dict(op='tour_remove', tour='T', start=net.info[T[i]]['id'], end=net.info[T[j]]['id']),
                                                                             dict(op='tour_sub_path', tour='T', start=net.info[T[i]]['id'], end=net.info[T[j]]['id'])]), expect=exp)
                if 'C12' in props:
                    J.prove(pc, refused == z3.BoolVal(res.variant == 1), 'remove: refused exactly when a depot would be stranded or the gap is not connectable',
                            lambda m: mk(m, what='remove is refused/accepted against the statement', clause_sig=' refusal'))
                    J.prove(pc, z3.BoolVal((chk.variant == 1) == (res.variant == 1)), 'check_removable agrees with remove')
                    if res.variant == 0:
                        ot, pth = res.fields[0].fields
                        got = tour_nodes(ex, ot.fields[0]) if ot.variant == 1 else None
                        J.prove(pc, z3.BoolVal(got == rest and path_nodes(ex, pth) == removed), 'remove: yields the tour without exactly the removed nodes',
                                lambda m: mk(m, what='remove returns other nodes than the tour minus the segment', clause_sig=' result'))
                        J.covers.add('remove: accepted')
                    else: J.covers.add('remove: refused')
                    okp = sub.variant == 0 and path_nodes(ex, sub.fields[0]) == T[i:j+1]
                    J.prove(pc, z3.BoolVal(okp), 'sub_path of an existing segment succeeds and equals the slice',
                            lambda m: mk(m, what='sub_path of an existing segment fails or returns other nodes', clause_sig=' sub_path'))
                if 'C09' in props and res.variant == 0 and res.fields[0].fields[0].variant == 1:
                    nt = res.fields[0].fields[0].fields[0]; got = tour_nodes(ex, nt)
                    for clause, f in aggregates_ok(ex, net, nt, got):
                        J.prove(pc, f, 'remove: ' + clause, lambda m, clause=clause: mk(m, what='after remove: ' + clause + ' violated', clause_sig=' ' + clause.split(' = ')[0]))
                def wit(m, net=net, T=T, res=res):
                    sym = dict(refused=res.variant == 1)
                    if res.variant == 0:
                        ot, pth = res.fields[0].fields
                        sym.update(nodes=names(net, tour_nodes(ex, ot.fields[0])) if ot.variant == 1 else None, removed=names(net, path_nodes(ex, pth)),
                                   aggregates=symbolic_aggregates(ot.fields[0], m) if ot.variant == 1 else None)
                    return dict(kind='remove', scenario=scenario(net, m, T, dummy, None, [dict(op='tour_remove', tour='T', start=net.info[T[i]]['id'], end=net.info[T[j]]['id'])]), symbolic=sym)
                J.witness(pc, wit)
                J.sample('%s: remove/sub_path/check_removable of positions [%d..%d]' % (sig0, i, j))
    return J.result()

def job_new(name, tier, tour, props):
    """Tour::new / new_dummy: accepted exactly for valid node sequences; aggregates of the fresh tour = recomputation"""
    J = JobCtx(name, CRATES); ex = J.ex
    dummy = bool(tour.get('dummy')); sig0 = shape_sig(tour)
    def body():
        ex.pc_global = []; ex.inputs = {}
        net = NB.build(ex, mk_spec(tier, count(tour, 'S'), count(tour, 'M')))
        T, _ = assign(net, tour, None)
        r = ex.call('Tour::new', [VecVal([Cell(net.info[n]['idx']) for n in T]), net.arc])
        return net, T, r
    for pc, r in J.explore(body):
        if isinstance(r, Panic): J.panic(pc, r, clause='Tour::new does not panic'); continue
        net, T, res = r; J.reached += 1
        st, conn = TS.valid_tour(net, T)
        def mk(m, net=net, T=T, what='', clause_sig=''):
            return dict(signature=sig0 + ' new' + clause_sig, what=what, scenario=scenario(net, m, T, False),
                        expect=dict(kind='new', valid=bool(st and mval(m, conn)), aggregates=expected_aggregates(net, T, m)))
        if 'C12' in props:
            J.prove(pc, z3.And(z3.BoolVal(st), conn) == z3.BoolVal(res.variant == 0), 'Tour::new accepts exactly the valid node sequences', lambda m: mk(m, what='Tour::new accepts an invalid / rejects a valid tour', clause_sig=' validity'))
        if 'C09' in props and res.variant == 0:
            for clause, f in aggregates_ok(ex, net, res.fields[0], T):
                J.prove(pc, f, 'Tour::new: ' + clause, lambda m, clause=clause: mk(m, what='fresh tour: ' + clause + ' violated', clause_sig=' ' + clause.split(' = ')[0]))
        J.sample('%s: Tour::new -> %s' % (sig0, 'Ok' if res.variant == 0 else 'Err'))
    return J.result()

def job_replace_depot(name, tier, tour, which, new, props):
    J = JobCtx(name, CRATES); ex = J.ex
    sig0 = shape_sig(tour) + ' replace_%s_depot(%s)' % (which, new)
    def body():
        ex.pc_global = []; ex.inputs = {}
        net = NB.build(ex, mk_spec(tier, count(tour, 'S'), count(tour, 'M'), ndepots=2))
        T, _ = assign(net, tour, None)
        t = build_tour(ex, net, T, False)
        d = net.depots[-1] if new == 'overflow' else net.depots[1]
        nd = d['start'] if which == 'start' else d['end']
        res = ex.call('Tour::replace_%s_depot' % which, [Ref(Cell(t)), net.info[nd]['idx']])
        return net, T, nd, res
    for pc, r in J.explore(body):
        if isinstance(r, Panic): J.panic(pc, r, clause='replace depot does not panic'); continue
        net, T, nd, res = r; J.reached += 1
        exp = ([nd] + T[1:]) if which == 'start' else (T[:-1] + [nd])
        def mk(m, net=net, T=T, what='', clause_sig=''):
            return dict(signature=sig0 + clause_sig, what=what,
                        scenario=scenario(net, m, T, False, None, [dict(op='tour_replace_%s_depot' % which, tour='T', depot=net.info[nd]['id'])]),
                        expect=dict(kind='replace', nodes=names(net, exp), aggregates=expected_aggregates(net, exp, m)))
        if res.variant != 0: J.prove(pc, z3.BoolVal(False), 'replace depot succeeds on a real tour', lambda m: mk(m, what='replace depot refused')); continue
        got = tour_nodes(ex, res.fields[0])
        J.prove(pc, z3.BoolVal(got == exp), 'replace depot changes only the depot', lambda m: mk(m, what='replace depot changes activities', clause_sig=' nodes'))
        if 'C09' in props:
            for clause, f in aggregates_ok(ex, net, res.fields[0], got):
                J.prove(pc, f, 'replace depot: ' + clause, lambda m, clause=clause: mk(m, what='after replace depot: ' + clause + ' violated', clause_sig=' ' + clause.split(' = ')[0]))
        J.sample(sig0)
    return J.result()

# ------------------------------------------------------------------ native confirmation
def confirm(c):
    sc = c.get('scenario'); exp = c.get('expect')
    if not sc: return False, 'no scenario'
    out = []
    for prof in ('dev', 'release'):
        obs = replay.run(sc, prof)
        bad, why = differs(exp, obs)
        out.append('%s: %s' % (prof, why))
        if not bad: return False, '; '.join(out)
    return True, '; '.join(out)

def agg_differs(exp, t):
    for k, v in exp.items():
        if t.get(k) != v: return True, '%s native=%s spec=%s' % (k, t.get(k), v)
    return False, ''
def differs(exp, obs):
    """does the native observation differ from the reference expectation?"""
    k = exp['kind']
    if any(isinstance(o, dict) and 'panic' in o for o in obs): return True, 'native panic: %s' % [o for o in obs if isinstance(o, dict) and 'panic' in o][0]['panic'][:200]
    if 'err' in obs[0]:
        if k == 'new': return (exp['valid'], 'Tour::new natively Err, spec valid=%s' % exp['valid'])
        return False, 'precondition not met natively: ' + str(obs[0])[:200]
    if k == 'new':
        if not exp['valid']: return True, 'Tour::new natively Ok, spec invalid'
        return agg_differs(exp['aggregates'], obs[0]['ok'])
    last = obs[-1]
    if k == 'insert':
        if last['tour']['nodes'] != exp['nodes']: return True, 'nodes native=%s spec=%s' % (last['tour']['nodes'], exp['nodes'])
        if last['removed'] != exp['removed']: return True, 'removed native=%s spec=%s' % (last['removed'], exp['removed'])
        return agg_differs(exp['aggregates'], last['tour'])
    if k == 'remove':
        rm, sp = obs[-2], obs[-1]
        if ('err' in rm) != exp['refused']: return True, 'refused native=%s spec=%s' % ('err' in rm, exp['refused'])
        if 'ok' in sp and sp['ok'] != exp['sub_path'] or 'err' in sp: return True, 'sub_path native=%s spec=%s' % (sp, exp['sub_path'])
        if 'ok' in rm:
            t = rm['ok']['tour']
            if (t['nodes'] if t else None) != exp['nodes'] or rm['ok']['removed'] != exp['removed']: return True, 'remove native=%s spec=%s' % (rm['ok'], exp['nodes'])
            if t and exp['aggregates']: return agg_differs(exp['aggregates'], t)
        return False, 'agrees'
    if k == 'replace':
        if 'err' in last: return True, 'native err ' + str(last)
        if last['ok']['nodes'] != exp['nodes']: return True, 'nodes differ'
        return agg_differs(exp['aggregates'], last['ok'])
    return False, 'unknown kind'

def validate(w):
    """translator validation: native observation == the executor's own result under the same assignment"""
    obs = replay.run(w['scenario'], 'dev'); sym = w['symbolic']; last = obs[-1]
    if 'err' in obs[0] or (len(obs) > 2 and isinstance(obs[1], dict) and 'err' in obs[1]): return False, 'native constructor refused what the symbolic constructor accepted: %s' % str(obs[:2])[:200]
    if w['kind'] == 'insert':
        if last.get('tour', {}).get('nodes') != sym['nodes'] or last.get('removed') != sym['removed']: return False, 'insert: native %s / symbolic %s' % (str(last)[:200], sym)
        bad, why = agg_differs(sym['aggregates'], last['tour']); return (not bad), why
    if w['kind'] == 'remove':
        if ('err' in last) != sym['refused']: return False, 'remove refusal: native %s symbolic %s' % (last, sym)
        if 'ok' in last:
            t = last['ok']['tour']
            if (t['nodes'] if t else None) != sym['nodes'] or last['ok']['removed'] != sym['removed']: return False, 'remove: native %s symbolic %s' % (str(last)[:200], sym)
            if t and sym['aggregates']:
                bad, why = agg_differs(sym['aggregates'], t); return (not bad), why
        return True, ''
    return True, ''

# ------------------------------------------------------------------ job lists
def tour_shapes(tier):
    acts = ['S', 'SS', 'SM'] if tier == 'quick' else ['S', 'SS', 'SM', 'MS', 'SSS', 'SMS', 'SSSS']
    out = []
    for a in acts:
        out.append(dict(acts=list(a)))
        if 'M' not in a: out.append(dict(acts=list(a), dummy=True))
    out.append(dict(acts=['S'], sd='overflow', ed='real')); out.append(dict(acts=['S'], sd='real', ed='overflow'))
    if tier == 'quick': out.append(dict(acts=['S', 'S'], sd='overflow', ed='overflow')); out.append(dict(acts=['M', 'S'])); out.append(dict(acts=['S', 'S', 'S'], remove_only=True)); out.append(dict(acts=['S', 'S', 'S'], dummy=True, remove_only=True))
    if tier == 'thorough':
        out.append(dict(acts=['S', 'S'], sd='overflow', ed='overflow')); out.append(dict(acts=['S', 'M'], sd='overflow', ed='real'))
    return out
def path_shapes(tier, tour):
    ps = [dict(acts=['S']), dict(acts=['S'], lead='real'), dict(acts=['S'], trail='real'), dict(acts=['S'], lead='real', trail='real')]
    if tier == 'quick':
        if len(tour['acts']) <= 1: ps += [dict(acts=['S', 'S']), dict(acts=['M'])]
        if tour.get('sd') == 'overflow' or tour.get('ed') == 'overflow': ps += [dict(acts=['S'], lead='overflow')]
    else:
        ps += [dict(acts=['M']), dict(acts=['S'], lead='overflow'), dict(acts=['S'], trail='overflow')]
        if len(tour['acts']) <= 3: ps += [dict(acts=['S', 'S']), dict(acts=['S', 'S'], lead='real'), dict(acts=['S', 'S'], trail='real'), dict(acts=['S', 'M'])]
    # at most one maintenance slot per shape keeps the instance small
    return [p for p in ps if count(p, 'M') + count(tour, 'M') <= 1]
def all_jobs(tier, seed, props):
    js = []
    for t in tour_shapes(tier):
        ts = shape_sig(t)
        for p in ([] if t.get('remove_only') else path_shapes(tier, t)):
            if len(t['acts']) + len(p['acts']) > (3 if tier == 'quick' else 5): continue
            js.append(dict(name='insert %s' % shape_sig(t, p), func='job_insert', kwargs=dict(tier=tier, tour=t, path=p, props=props)))
        if 'C12' in props or len(t['acts']) >= 2:
            js.append(dict(name='remove %s' % ts, func='job_remove', kwargs=dict(tier=tier, tour=t, props=props)))
        if not t.get('dummy') and not t.get('remove_only'):
            js.append(dict(name='new %s' % ts, func='job_new', kwargs=dict(tier=tier, tour=t, props=props)))
    if 'C09' in props:
        for t in ([dict(acts=['S']), dict(acts=['S'], sd='overflow', ed='real'), dict(acts=['S'], sd='real', ed='overflow')] + ([dict(acts=['S', 'M']), dict(acts=['S', 'S'], sd='overflow', ed='overflow')] if tier == 'thorough' else [])):
            for which in ('start', 'end'):
                for new in ('real', 'overflow'):
                    js.append(dict(name='replace %s %s->%s' % (shape_sig(t), which, new), func='job_replace_depot', kwargs=dict(tier=tier, tour=t, which=which, new=new, props=props)))
    return js
