"""C09 — cached aggregates equal recomputation (tour level here; schedule level in schedops)."""
from .tourops import *
from . import tourops as TO
PROPERTY = 'C09'
ASSUMPTIONS = ['network value built by netbuild (equal to Network::new by C17)', 'activity durations >= 1 s',
               'cost rates are the concrete tuple of distinct primes (staff 2, service 3, maintenance 5, dead-head 7, idle 11); durations, distances and times symbolic',
               'pre-states are produced by the real constructors executed symbolically']
BOUNDS = {'quick': 'tour level: as C12 quick plus replace_start/end_depot incl. tours on the overflow depot; schedule level: as C10 quick', 'thorough': 'tour level: as C12 thorough; schedule level: as C10 thorough'}
OUTSIDE = 'histories longer than the bound'
REQUIRED_COVERS = {'quick': ['insert: overflow depot in result'], 'thorough': ['insert: overflow depot in result']}
from . import schedops as SO
from .schedops import job_script
def jobs(tier, seed): return TO.all_jobs(tier, seed, ['C09']) + SO.all_jobs(tier, seed, ['C09'])
_tour_confirm = TO.confirm; _tour_validate = TO.validate
def confirm(c): return SO.confirm(c) if 'native_confirmed' in c else _tour_confirm(c)
def validate(w): return SO.validate(w) if w.get('check') == 'script' else _tour_validate(w)
