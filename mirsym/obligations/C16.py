"""C16 — the returned schedule is the product of all pipeline stages.

server::solve_instance is executed symbolically from its MIR with every stage an uninterpreted function;
the term handed to create_output_json is compared (validity in EUF, decided by z3) with the reference
composition of the stages."""
import z3, json, os, re
from ..core import *
from .. import models as M, replay, build
from ..harness import JobCtx

PROPERTY = 'C16'
MIR = [('server', 'on'), ('internal', 'on'), ('solver', 'on'), ('rapid_solve', 'on'), ('solver', 'off'), ('server', 'off'), ('internal', 'off'), ('rapid_solve', 'off')]
CRATES = ['server', 'solver', 'rapid_solve']
ASSUMPTIONS = ['every stage (min-cost-flow solve, improve_depots, local-search solve, transition-search solve, set_next_day_transitions, reassign_end_depots_consistent_with_transitions, evaluate, create_output_json) is an uninterpreted function: the claim is about the wiring only, the stages are the subject of the other properties',
               'printing, timing and hostname look-ups are no-ops', 'two vehicle types',
               'native confirmation compares server::solve_instance with the reference composition on the repository\'s own instances (deterministic stages assumed)']
BOUNDS = {'quick': 'both branches (maintenance considered or not), 2 vehicle types', 'thorough': 'same, 1..3 vehicle types'}
OUTSIDE = 'the stages\' internals; internal::run (the CLI twin) is checked by the same obligation'
REQUIRED_COVERS = {'quick': ['branch:maintenance', 'branch:no-maintenance'], 'thorough': ['branch:maintenance', 'branch:no-maintenance']}

class UF:
    def __init__(self, name, args=()): self.name = name; self.args = list(args)
    def __repr__(self): return '%s(%s)' % (self.name, ', '.join(show(a) for a in self.args)) if self.args else self.name
_EX = [None]
def stripv(v):
    ex = _EX[0]
    while isinstance(v, Ref): v = ex.deref_val(v)
    return v
def show(v):
    v = stripv(v) if isinstance(v, Ref) else v
    if isinstance(v, UF): return repr(v)
    if isinstance(v, Agg):
        if v.ty == 'Arc': return show(v.fields[0].v)
        return '%s%s{%s}' % (v.ty, '' if v.variant is None else '#%d' % v.variant, ', '.join(show(f) for f in v.fields))
    if isinstance(v, Scalar): return str(sx(v.e))
    if isinstance(v, StrVal): return 'str'
    if isinstance(v, MapVal): return 'map{%s}' % ', '.join('%s: %s' % (show(k), show(c.v)) for k, c in v.entries)
    if isinstance(v, VecVal): return '[%s]' % ', '.join(show(c.v) for c in v.cells)
    return type(v).__name__

def norm_term(v):
    """value -> canonical nested tuple (EUF term): wrappers that carry no stage information are looked through"""
    v = stripv(v) if isinstance(v, Ref) else v
    if isinstance(v, UF): return (v.name,) + tuple(norm_term(a) for a in v.args)
    if isinstance(v, Agg):
        if v.ty == 'Arc': return norm_term(v.fields[0].v)
        if v.ty == 'ScheduleWithInfo': return norm_term(v.fields[STRUCTS['ScheduleWithInfo'].index('schedule')])
        if v.ty == 'TransitionWithInfo': return norm_term(v.fields[STRUCTS['TransitionWithInfo'].index('transition')])
        if v.ty == 'VehicleTypeIdx': return ('vt%s' % conc(v.fields[0]),)
        return (v.ty,) + tuple(norm_term(f) for f in v.fields)
    if isinstance(v, MapVal): return ('map',) + tuple(sorted((norm_term(k), norm_term(c.v)) for k, c in v.entries))
    if isinstance(v, Scalar): return ('const', str(sx(v.e)))
    return (type(v).__name__,)

def to_z3(t, U, cache):
    """nested tuple -> z3 term over one uninterpreted sort"""
    if t in cache: return cache[t]
    args = [to_z3(a, U, cache) for a in t[1:] if isinstance(a, tuple)]
    name = str(t[0]) if all(isinstance(a, tuple) for a in t[1:]) else str(t)
    f = z3.Function('%s/%d' % (name, len(args)), *([U] * (len(args) + 1)))
    r = f(*args); cache[t] = r; return r

def reference(ntypes, maintenance):
    mcf = ('improve_depots', ('MCF',))
    S = ('LS', mcf) if maintenance else mcf
    m = ('map',) + tuple(sorted((('vt%d' % i,), ('TLS', ('tls_solver', S), ('transition_of', S, ('vt%d' % i,)))) for i in range(ntypes)))
    fin = ('reassign_end_depots', ('set_transitions', S, m))
    return fin

def jobs(tier, seed):
    js = [dict(name='server::solve_instance wiring, %d types' % n, func='job_wiring', kwargs=dict(ntypes=n, entry='solve_instance', crate='server')) for n in ((2,) if tier == 'quick' else (1, 2, 3))]
    js += [dict(name='internal::run wiring, %d types' % n, func='job_wiring', kwargs=dict(ntypes=n, entry='run', crate='internal')) for n in ((2,) if tier == 'quick' else (1, 2, 3))]
    js += [dict(name='MinCostFlowSolver::solve wiring, %d types' % n, func='job_mcf_wiring', kwargs=dict(ntypes=n)) for n in ((2,) if tier == 'quick' else (1, 2, 3))]
    return js

def job_wiring(name, ntypes, entry, crate, mode='on'):
    TRACE = []; FIG = {}
    def figure(which):
        # cached figures of an uninterpreted stage result: one symbolic integer per distinct term (an uninterpreted function of the term)
        def m(ex, callee, args):
            key = which + ':' + repr(norm_term(args[0]))
            if key not in FIG: FIG[key] = len(FIG)
            return sym_int(ex, '%s!%d' % (which, FIG[key]), 'i64', -2**40, 2**40)
        return m
    def uf(nm, keep=None):
        def m(ex, callee, args):
            a = [x for i, x in enumerate(args) if keep is None or i in keep]
            t = UF(nm, a); TRACE.append((nm, t)); return t
        return m
    VT = lambda: [Agg('VehicleTypeIdx', None, [bv(i, 'u16')]) for i in range(ntypes)]
    S = STRUCTS
    def evs(ov, sol): return Agg('EvaluatedSolution', None, [dict(objective_value=ov, solution=sol)[f] for f in S['EvaluatedSolution']])
    def swi(sched): return Agg('ScheduleWithInfo', None, [dict(schedule=sched, last_swap_info=Opaque('info'), print_text=StrVal('t'))[f] for f in S['ScheduleWithInfo']])
    def twi(tr): return Agg('TransitionWithInfo', None, [dict(transition=tr, print_text=StrVal('t'))[f] for f in S['TransitionWithInfo']])
    def sched_of(v): v = stripv(v); return v.fields[S['ScheduleWithInfo'].index('schedule')]
    def m_default(ex, callee, args): return UF(re.sub(r'::<.*', '', callee)[-40:], [])
    models = [
        (r'^load_rolling_stock_problem_instance_from_json$', lambda ex, c, a: M.arc(UF('network', []))),
        (r'^(solver::)?objective::build$', uf('objective', [])),
        (r'^MinCostFlowSolver::initialize$', uf('mcf_solver', [])),
        (r'^MinCostFlowSolver::solve$', uf('MCF', [])),
        (r'^solution::schedule::modifications::<impl Schedule>::improve_depots$', lambda ex, c, a: uf('improve_depots')(ex, c, [stripv(a[0])])),
        (r'^solution::schedule::modifications::<impl Schedule>::reassign_end_depots_consistent_with_transitions$', lambda ex, c, a: uf('reassign_end_depots')(ex, c, [stripv(a[0])])),
        (r'^Schedule::set_next_day_transitions$', lambda ex, c, a: uf('set_transitions')(ex, c, [stripv(a[0]), a[1]])),
        (r'^Schedule::next_day_transition_of$', lambda ex, c, a: Ref(Cell(UF('transition_of', [stripv(a[0]), a[1]])))),
        (r'^Transition::maintenance_violation$', figure('violation')), (r'^Transition::maintenance_counter$', figure('counter')),
        (r'^<Transition as Clone>::clone$', lambda ex, c, a: stripv(a[0])),
        (r'^<ScheduleWithInfo as Clone>::clone$', lambda ex, c, a: stripv(a[0])),
        (r'^(solver::local_search::)?build_local_search_solver$', uf('ls_solver', [])),
        (r'^build_transition_local_search_solver$', lambda ex, c, a: uf('tls_solver')(ex, c, [stripv(a[0])])),
        (r'^<ParallelLocalSearchSolver<ScheduleWithInfo> as Solver<ScheduleWithInfo>>::solve$', lambda ex, c, a: evs(UF('ov', []), swi(UF('LS', [sched_of(a[1])])))),
        (r'^<ParallelLocalSearchSolver<TransitionWithInfo> as Solver<TransitionWithInfo>>::solve$',
            lambda ex, c, a: evs(UF('ov', []), twi(UF('TLS', [stripv(a[0]), stripv(a[1]).fields[S['TransitionWithInfo'].index('transition')]])))),
        (r'^Objective::<ScheduleWithInfo>::evaluate$', lambda ex, c, a: evs(UF('objective_value', [sched_of(a[1])]), a[1])),
        (r'^Network::maintenance_considered$', lambda ex, c, a: sym_bool(ex, 'maintenance_considered')),
        (r'^Network::vehicle_types$', lambda ex, c, a: M.arc(Agg('VehicleTypes', None, [Opaque('m'), VecVal([Cell(v) for v in VT()])]))),
        (r'^VehicleTypes::iter$', lambda ex, c, a: M.ListIter(VT())),
        (r'^VehicleTypes::get$', lambda ex, c, a: some(M.arc(UF('vt', [a[1]])))),
        (r'^Network::size$', uf('nw_misc', [])),
        (r'^Network::overflow_depot_idxs$', lambda ex, c, a: tup(UF('ovf', []), UF('ovf_s', []), UF('ovf_e', []))),
        (r'^Schedule::number_of_vehicles_of_same_type_spawned_at$', lambda ex, c, a: bv(0, 'u32')),
        (r'^(server::)?create_output_json$', lambda ex, c, a: uf('output_json')(ex, c, [stripv(a[0])])),
        (r'^(Schedule::print_.*|Schedule::total_depot_balance_violation|Objective::<.*>::print_objective_value.*|std::io::_print|.*Instant.*|.*elapsed.*|.*as_secs_f32|.*duration_since.*|core::fmt::.*|Arguments.*|<str as ToString>::to_string|std::time::.*|SwapInfo.*)$', m_default),
    ]
    J = JobCtx(name, [crate, 'solver', 'rapid_solve'], mode=mode, extra_models=models); ex = J.ex; _EX[0] = ex
    f = ex.resolve_fn(entry)
    def body():
        ex.pc_global = []; ex.inputs = {}; del TRACE[:]; FIG.clear()
        ex.call_fn(f, [UF('input', [])])
        return list(TRACE)
    for pc, r in J.explore(body):
        if isinstance(r, Panic): J.panic(pc, r, clause='solve_instance wiring executes'); continue
        J.reached += 1
        outs = [t for nm, t in r if nm == 'output_json']
        if len(outs) != 1: J.prove(pc, False, 'exactly one answer is serialised'); continue
        final = stripv(outs[0].args[0])           # EvaluatedSolution handed to create_output_json
        got_sched = norm_term(final.fields[STRUCTS['EvaluatedSolution'].index('solution')])
        got_val = norm_term(final.fields[STRUCTS['EvaluatedSolution'].index('objective_value')])
        maint = J.sat(pc, ex.inputs['maintenance_considered']) is not None
        J.covers.add('branch:maintenance' if maint else 'branch:no-maintenance')
        ref = reference(ntypes, maint)
        U = z3.DeclareSort('U'); cache = {}
        def mk(m, what):
            return dict(signature='returned schedule is not reassign(set_transitions(LS, optimised transitions))', what=what,
                        scenario=dict(kind='solve_compare'), expect=dict(got=str(got_sched)[:600], reference=str(ref)[:600]))
        s = z3.Solver(); s.add(to_z3(got_sched, U, cache) != to_z3(ref, U, cache)); J.queries += 1
        J.obligations += 1
        if s.check() == z3.unsat: J.discharged += 1
        else:
            J.cex.append(dict(clause='returned schedule = reference composition of all stages (EUF)', job=name, **mk(None, 'the schedule that is serialised is not the local-search result carrying the optimised transitions with end depots aligned to them: got %s' % (str(show(final.fields[STRUCTS['EvaluatedSolution'].index('solution')]))[:300]))))
        s = z3.Solver(); s.add(to_z3(got_val, U, cache) != to_z3(('objective_value', got_sched), U, cache)); J.queries += 1; J.obligations += 1
        if s.check() == z3.unsat: J.discharged += 1
        else: J.cex.append(dict(clause='reported objective value is evaluated on the returned schedule (EUF)', job=name, **mk(None, 'objective value is not evaluated on the schedule that is returned')))
        J.sample('branch maintenance=%s: returned schedule term = %s' % (maint, str(got_sched)[:400]))
    return J.result()

def job_mcf_wiring(name, ntypes, mode='on'):
    """MinCostFlowSolver::solve from MIR, stages uninterpreted: every vehicle type is solved with ITS OWN maintenance allotment and
    all results are handed to Schedule::from_tours on the solver's own network"""
    rec = []
    VT = lambda: [Agg('VehicleTypeIdx', None, [bv(i, 'u16')]) for i in range(ntypes)]
    models = [
        (r'^MinCostFlowSolver::distribute_maintenance_slots$', lambda ex, c, a: MapVal([(v, Cell(UF('allotment', [v]))) for v in VT()], name='allot')),
        (r'^MinCostFlowSolver::solve_for_vehicle_type$', lambda ex, c, a: UF('solve_for_vehicle_type', [a[1], a[2]])),
        (r'^Schedule::from_tours$', lambda ex, c, a: (rec.append(list(a)), ok(UF('from_tours', [])))[1]),
        (r'^(model::vehicle_types::)?VehicleTypes::iter$', lambda ex, c, a: M.ListIter(VT())),
        (r'^(model::vehicle_types::)?VehicleTypes::get$', lambda ex, c, a: some(M.arc(UF('vt', [a[1]])))),
        (r'^(model::network::)?Network::vehicle_types$', lambda ex, c, a: M.arc(Agg('VehicleTypes', None, [Opaque('m'), VecVal([Cell(v) for v in VT()])]))),
        (r'^(std::io::_print|core::fmt::.*|Arguments.*)$', lambda ex, c, a: Opaque('print')),
    ]
    J = JobCtx(name, ['solver'], mode=mode, extra_models=models); ex = J.ex; _EX[0] = ex
    f = [v[0] for k, v in ex.fns.items() if 'min_cost_flow_solver.rs' in k and k.endswith('>::solve')]
    if len(f) != 1: raise Unsupported('MinCostFlowSolver::solve: %d candidates' % len(f))
    def body():
        ex.pc_global = []; ex.inputs = {}; del rec[:]
        nw = M.arc(UF('network', []))
        solver = Agg('MinCostFlowSolver', None, [dict(vehicle_types=M.arc(Agg('VehicleTypes', None, [Opaque('m'), VecVal([Cell(v) for v in VT()])])), config=M.arc(Opaque('config')), network=nw)[x] for x in STRUCTS['MinCostFlowSolver']])
        r = ex.call_fn(f[0], [Ref(Cell(solver))]); return list(rec), r
    for pc, r in J.explore(body):
        if isinstance(r, Panic): J.panic(pc, r, clause='start solution wiring executes'); continue
        calls, res = r; J.reached += 1
        if len(calls) != 1: J.prove(pc, False, 'start solution: exactly one schedule is built from the per-type tours'); continue
        tours, nw = calls[0]
        got = norm_term(tours)
        want = ('map',) + tuple(sorted((('vt%d' % i,), ('solve_for_vehicle_type', ('vt%d' % i,), ('allotment', ('vt%d' % i,)))) for i in range(ntypes)))
        J.prove(pc, got == want, 'start solution: every vehicle type is solved with its own maintenance allotment and all per-type tours reach Schedule::from_tours')
        J.prove(pc, norm_term(nw) == ('network',) and isinstance(res, UF) and res.name == 'from_tours', 'start solution: the schedule is built on the solver\'s own network and returned as is')
        J.sample('solve() -> from_tours(%s)' % (str(got)[:300]))
    return J.result()

WITNESS = ['solution/resources/test_instance.json', 'model/resources/small_test_input.json']
def confirm(c):
    if c.get('job_func') == 'job_mcf_wiring':
        from ..harness import confirm_on_other_flavour
        return confirm_on_other_flavour('mirsym.obligations.C16', 'job_mcf_wiring', c.get('job_kwargs', {}), c['clause'])
    hit, why = _confirm_native(c)
    if hit or c.get('job_func') != 'job_wiring': return hit, why
    # the repository's instances may not exercise the branch (e.g. several rotation cycles per type): the wiring itself has no other
    # native observable, so the obligation is re-decided on the MIR of the other arithmetic flavour before it is reported
    from ..harness import confirm_on_other_flavour
    hit2, why2 = confirm_on_other_flavour('mirsym.obligations.C16', 'job_wiring', c.get('job_kwargs', {}), c['clause'])
    return hit2, why + ' | ' + why2
def _confirm_native(c):
    """native: server::solve_instance vs the reference composition of the same (real) stages on the repository's instances"""
    out = []
    for w in WITNESS:
        inst = json.load(open(os.path.join(build.SNAP, w)))
        res = []
        for prof in ('release',):
            o = replay.run(dict(instance=inst, ops=[dict(op='solve_compare', instance=inst)]), prof, timeout=600)[0]
            if 'panic' in o or 'timeout' in o: res.append(str(o)[:200]); continue
            sv = o['server']['schedule']; rf = o['reference']
            cyc_s = {fl['vehicleType']: fl['vehicleCycles'] for fl in sv['fleet']}
            dep_s = [(v['id'], v['startDepot'], v['endDepot']) for fl in sv['fleet'] for v in fl['vehicles']]
            dep_r = [(v['id'], v['startDepot'], v['endDepot']) for fl in rf['schedule']['fleet'] for v in fl['vehicles']]
            if cyc_s != rf['optimiser_cycles']: return True, '%s: reported cycles %s != optimiser cycles %s' % (w, cyc_s, rf['optimiser_cycles'])
            if dep_s != dep_r: return True, '%s: depots differ from the reference composition' % w
            if o['server']['objectiveValue'] != rf['objective']: return True, '%s: objective differs' % w
            res.append('agrees')
        out.append('%s: %s' % (w, res))
    return False, '; '.join(out)
