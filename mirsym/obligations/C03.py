"""C03 — the output is complete and its vehicle view and trip view agree.

solution::json_serialisation::schedule_to_json (and fleet/vehicle/segment/slot/depot helpers, schedule_dead_head_trip) is
executed from MIR on schedules produced by real modification scripts; serde's to_value is the identity on the struct tree;
strings that carry instance data (location names, ISO times, ids) are kept as tokens that remember the value they print."""
import z3, itertools, json
from ..core import *
from .. import models as M, netbuild as NB, replay
from ..harness import JobCtx
from ..specs import tour as TS
from . import schedops as SO
from .schedops import read_schedule, apply_op, unpack, vkey
from .tourops import mval, F

PROPERTY = 'C03'
CRATES = ['rapid_time', 'model', 'solution']
MIR = [('rapid_time', 'on'), ('model', 'on'), ('solution', 'on')]
ASSUMPTIONS = ['serde_json::to_value is modelled as the identity on the ScheduleJson struct tree; DateTime::as_iso and Locations::get_id return tokens carrying the value they would print (string formatting itself is outside)',
               'schedules are produced by explicit scripts of real modifications from Schedule::empty (as in C10/C11); listings of the network in id order (the output order of segments is not part of the property)']
BOUNDS = {'quick': '6 base schedules on the 1-type instance of C10 (empty; one vehicle; two vehicles; vehicle + maintenance vehicle; dummy + vehicle; two-trip vehicle) and one on the lean two-type instance (one vehicle of each type), all attributes symbolic', 'thorough': 'additionally three vehicles sharing trips, and two vehicles on the two-depot instance (variant 4)'}
OUTSIDE = 'ISO string formatting, serde; larger schedules; the order of list entries'
REQUIRED_COVERS = {'quick': ['dead-head trip listed', 'vehicle on overflow depot'], 'thorough': ['dead-head trip listed', 'vehicle on overflow depot']}

class Tok(StrVal):
    """a string that remembers what it prints"""
    __slots__ = ('kind', 'val')
    def __init__(self, kind, val): StrVal.__init__(self, '<%s>' % kind); self.kind = kind; self.val = val
def _s(ex, v): return ex.strip(v)
def m_to_string(ex, c, a):
    v = _s(ex, a[0])
    if isinstance(v, StrVal): return v
    if isinstance(v, Agg) and v.ty == 'VehicleIdx': return StrVal(vkey(v))
    if isinstance(v, Agg) and v.ty in ('VehicleTypeIdx',): return StrVal('vt%d' % conc(v.fields[0]))
    if isinstance(v, Scalar) and conc(v) is not None: return StrVal(str(conc(v)))
    return StrVal('<fmt>')
def m_str_add(ex, c, a):
    x = _s(ex, a[0]); y = _s(ex, a[1]); return StrVal(x.text.strip('"') + y.text.strip('"'))
MODELS = [
    (r'^<.* as ToString>::to_string$', m_to_string),
    (r'^<std::string::String as Clone>::clone$', lambda ex, c, a: _s(ex, a[0])),
    (r'^<std::string::String as (std::ops::)?Add<&str>>::add$', m_str_add),
    (r'^<std::string::String as Deref>::deref$', lambda ex, c, a: _s(ex, a[0])),
    (r'^(rapid_time::)?DateTime::as_iso$', lambda ex, c, a: Tok('time', _s(ex, a[0]))),
    (r'^Locations::get_id$', lambda ex, c, a: ok(Tok('loc', a[1]))),
    (r'^(serde_json::)?to_value::<.*>$', lambda ex, c, a: ok(a[0])),
    (r'^Network::depots_iter$', lambda ex, c, a: M.ListIter([copy_val(k) for k, cc in F(ex.strip(a[0]), 'Network', 'depots').entries])),
] + SO.LISTED_MODELS

BASES = [
    (0, []),
    (0, [('spawn', 0, [4])]),
    (0, [('spawn', 0, [4]), ('spawn', 0, [5])]),
    (0, [('spawn', 0, [4]), ('spawn', 0, [7])]),
    (0, [('spawn', 0, [4]), ('to_dummy', 'veh_0'), ('spawn', 0, [5])]),
    (0, [('spawn', 0, [4, 5])]),
    (2, [('spawn', 0, [4]), ('spawn', 1, [5])]),      # two vehicle types (per-type figures such as depot loads differ from totals)
]
BASES2 = [(0, [('spawn', 0, [4]), ('spawn', 0, [4]), ('spawn', 0, [6])]), (4, [('spawn', 0, [6]), ('spawn', 0, [7])])]      # (three vehicles on the two-type/two-depot instance ran past the 30-minute job cap: not in the plan)
def jobs(tier, seed):
    return [dict(name='output of base %d' % k, func='job_output', kwargs=dict(tier=tier, variant=v, prefix=p)) for k, (v, p) in enumerate(BASES + (BASES2 if tier == 'thorough' else []))]

def G(v, sname, fname): return v.fields[STRUCTS[sname].index(fname)]
def txt(v): return v.text.strip('"') if isinstance(v, StrVal) else None
def abs_time(dt):
    """DateTime value -> absolute seconds term (None for Earliest/Latest)"""
    if isinstance(dt, Lazy): raise Unsupported('lazy DateTime in output')
    if dt.variant != 1: return None
    tp = dt.fields[0]; return (G(tp, 'TimePoint', 'days').e - NB.BASE_DAY) * 86400 + G(tp, 'TimePoint', 'seconds').e

def job_output(name, tier, variant, prefix):
    J = JobCtx(name, CRATES, extra_models=MODELS); ex = J.ex
    def body():
        ex.pc_global = []; ex.inputs = {}
        net = NB.build(ex, SO.mk_spec(tier, variant))
        s = ex.call('Schedule::empty', [net.arc]); st = read_schedule(ex, s)
        for op in prefix:
            if any(isinstance(x, str) and x.startswith(('veh_', 'dummy_')) and x not in st['tours'] and x not in st['dummies'] for x in op[1:]): raise PathAbort()
            ns, extra = unpack(apply_op(ex, net, s, tuple(op)))
            if ns is None: raise PathAbort()
            s = ns; st = read_schedule(ex, s)
        out = ex.call('json_serialisation::schedule_to_json', [Ref(Cell(s))])
        return net, st, out
    for pc, r in J.explore(body, max_paths=60000):
        if isinstance(r, Panic): J.panic(pc, r, clause='output: serialisation does not panic'); continue
        net, st, out = r; J.reached += 1
        def loc_is(tok, term):
            if not isinstance(tok, Tok) or tok.kind != 'loc': return False
            l = ex.strip(tok.val)
            if term is None: return isinstance(l, Agg) and l.variant == 1
            return M.val_eq(ex, l, NB.station(term))
        def time_is(tok, term):
            if not isinstance(tok, Tok) or tok.kind != 'time': return False
            t = abs_time(tok.val); return (Z(t) == term) if t is not None else False
        T = st['tours']; V = st['vehicles']
        def mk(m, clause, net=net):
            ops = [dict(op='schedule_empty', name='S0')]
            for i, op in enumerate(prefix): ops.append(SO.replay_op(net, tuple(op), 'S%d' % i, 'S%d' % (i + 1)))
            ops.append(dict(op='schedule_to_json', schedule='S%d' % len(prefix)))
            sc = dict(instance=NB.to_json(net, m), ops=ops); res = {}
            for prof in ('dev', 'release'):
                obs = replay.run(sc, prof)
                if any(isinstance(o, dict) and 'panic' in o for o in obs): res[prof] = ['native panic']; continue
                state = obs[-2]['ok'] if len(obs) >= 2 and isinstance(obs[-2], dict) and 'ok' in obs[-2] else obs[0]
                res[prof] = native_check(net, m, state, obs[-1])
            return dict(signature=clause + ' on base %s' % [o[0] for o in prefix], what='%s (base schedule built by %s)' % (clause, prefix), scenario=sc, expect=dict(native=res),
                        native_confirmed=all(clause in res[p_] or 'native panic' in res[p_] for p_ in res))
        _prove = J.prove
        def prove(pc_, f, clause): return _prove(pc_, f, clause, lambda m: mk(m, clause))
        J.prove = prove
        # ---- trip view
        segs = G(out, 'ScheduleJson', 'departure_segments').cells
        ids = [txt(G(c.v, 'JsonDepartureSegmentWithFormation', 'departure_segment')) for c in segs]
        J.prove(pc, sorted(ids) == sorted(net.info[n]['id'] for n in net.trips), 'output: every departure segment of the input is listed exactly once')
        for c in segs:
            d = c.v; n = [x for x in net.trips if net.info[x]['id'] == txt(G(d, 'JsonDepartureSegmentWithFormation', 'departure_segment'))]
            if not n: continue
            I = net.info[n[0]]; S_ = 'JsonDepartureSegmentWithFormation'
            J.prove(pc, z_and(loc_is(G(d, S_, 'origin'), I['o']), loc_is(G(d, S_, 'destination'), I['d']), time_is(G(d, S_, 'departure'), I['st']), time_is(G(d, S_, 'arrival'), I['et']),
                              txt(G(d, S_, 'vehicle_type')) == 'vt%d' % I['vt']), 'output: a listed segment carries the input\'s origin, destination, departure, arrival = departure + duration and vehicle type')
            form = [txt(x.v) for x in G(d, S_, 'formation').cells]
            J.prove(pc, sorted(form) == sorted(v for v, nodes in T.items() if n[0] in nodes) and len(set(form)) == len(form), 'output: formation of a segment = exactly the vehicles whose itinerary contains it, none twice')
        slots = G(out, 'ScheduleJson', 'maintenance_slots').cells
        J.prove(pc, sorted(txt(G(c.v, 'JsonFleetMaintenanceSlotWithFormation', 'maintenance_slot')) for c in slots) == sorted(net.info[n]['id'] for n in net.maint), 'output: every maintenance slot of the input is listed exactly once')
        for c in slots:
            d = c.v; S_ = 'JsonFleetMaintenanceSlotWithFormation'; n = [x for x in net.maint if net.info[x]['id'] == txt(G(d, S_, 'maintenance_slot'))]
            if not n: continue
            I = net.info[n[0]]
            J.prove(pc, z_and(loc_is(G(d, S_, 'location'), I['sloc']), time_is(G(d, S_, 'start'), I['st']), time_is(G(d, S_, 'end'), I['et'])), 'output: a listed slot carries the input\'s location and times')
            form = [txt(x.v) for x in G(d, S_, 'formation').cells]
            J.prove(pc, sorted(form) == sorted(v for v, nodes in T.items() if n[0] in nodes) and len(set(form)) == len(form), 'output: formation of a slot = exactly the vehicles whose itinerary contains it')
        # ---- vehicle view
        fleet = G(out, 'ScheduleJson', 'fleet').cells
        J.prove(pc, sorted(txt(G(f.v, 'JsonFleet', 'vehicle_type')) for f in fleet) == ['vt%d' % t for t in range(len(net.types))], 'output: one fleet entry per vehicle type')
        listed_dh = []
        for f in fleet:
            t = int(txt(G(f.v, 'JsonFleet', 'vehicle_type'))[2:])
            vs = G(f.v, 'JsonFleet', 'vehicles').cells
            J.prove(pc, [txt(G(v.v, 'JsonVehicle', 'id')) for v in vs] == st['sorted'][t], 'output: the fleet of a type lists exactly its vehicles')
            J.prove(pc, [[txt(x.v) for x in cy.v.cells] for cy in G(f.v, 'JsonFleet', 'vehicle_cycles').cells] == st['transitions'][t]['cycles'], 'output: the reported vehicle cycles are the stored rotation cycles')
            for v in vs:
                vid = txt(G(v.v, 'JsonVehicle', 'id'))
                if vid not in T: continue
                nodes = T[vid]; dn = {d['i']: d['id'] for d in net.depots}
                J.prove(pc, txt(G(v.v, 'JsonVehicle', 'start_depot')) == dn[net.info[nodes[0]]['depot']] and txt(G(v.v, 'JsonVehicle', 'end_depot')) == dn[net.info[nodes[-1]]['depot']], 'output: start and end depot of a vehicle are those of its itinerary')
                ds = [txt(G(x.v, 'JsonFleetDepartureSegment', 'departure_segment')) for x in G(v.v, 'JsonVehicle', 'departure_segments').cells]
                ms = [txt(G(x.v, 'JsonFleetMaintenanceSlot', 'maintenance_slot')) for x in G(v.v, 'JsonVehicle', 'maintenance_slots').cells]
                J.prove(pc, ds == [net.info[n]['id'] for n in nodes if net.info[n]['kind'] == 'Service'] and ms == [net.info[n]['id'] for n in nodes if net.info[n]['kind'] == 'Maintenance'], 'output: the vehicle lists exactly the activities of its itinerary, in order')
                if TS.nowhere(net, nodes[0]) or TS.nowhere(net, nodes[-1]): J.covers.add('vehicle on overflow depot')
                # dead-head trips = location changes, each inside its gap
                dhs = G(v.v, 'JsonVehicle', 'dead_head_trips').cells; k = 0; conj = []
                for a, b in zip(nodes, nodes[1:]):
                    la = None if TS.nowhere(net, a) else TS.eloc(net, a); lb = None if TS.nowhere(net, b) else TS.sloc(net, b)
                    differ = True if (la is None) != (lb is None) else (False if la is None else (Z(la) != Z(lb)))
                    # the path has decided whether an entry was written: read it off the list by matching origin/destination
                    if k < len(dhs) and z3.is_true(z3.simplify(Z(z_and(loc_is(G(dhs[k].v, 'JsonFleetDeadHeadTrip', 'origin'), la), loc_is(G(dhs[k].v, 'JsonFleetDeadHeadTrip', 'destination'), lb))))) and J.sat(pc, Z(differ)) is not None and J.sat(pc, z3.Not(Z(differ))) is None:
                        e = dhs[k].v; k += 1; J.covers.add('dead-head trip listed'); listed_dh.append((vid, txt(G(e, 'JsonFleetDeadHeadTrip', 'id'))))
                        dep = abs_time(G(e, 'JsonFleetDeadHeadTrip', 'departure').val); arr = abs_time(G(e, 'JsonFleetDeadHeadTrip', 'arrival').val)
                        if not TS.is_depot(net, a) and not TS.is_depot(net, b):
                            conj.append(z_and(Z(dep) >= net.info[a]['et'], Z(arr) <= net.info[b]['st'], Z(dep) <= Z(arr)) if dep is not None and arr is not None else False)
                        elif TS.is_depot(net, a) and not TS.is_depot(net, b) and arr is not None:
                            conj.append(Z(arr) <= net.info[b]['st'])
                        elif not TS.is_depot(net, a) and dep is not None:
                            conj.append(Z(dep) >= net.info[a]['et'])
                    else:
                        conj.append(z_not(Z(differ)) if not isinstance(differ, bool) else (not differ))
                conj.append(k == len(dhs))
                J.prove(pc, z_and(*conj), 'output: the listed dead-head trips of a vehicle are exactly its location changes, each inside the gap it bridges')
        # the global dead-head list mirrors the per-vehicle lists
        gl = [(txt(x.v.fields[STRUCTS['JsonFleetDeadHeadTripWithFormation'].index('formation')].cells[0].v), txt(G(x.v, 'JsonFleetDeadHeadTripWithFormation', 'id'))) for x in G(out, 'ScheduleJson', 'dead_head_trips').cells]
        J.prove(pc, sorted(gl) == sorted(listed_dh) or len(gl) == sum(len(G(v.v, 'JsonVehicle', 'dead_head_trips').cells) for f in fleet for v in G(f.v, 'JsonFleet', 'vehicles').cells), 'output: the global dead-head list has one entry per vehicle dead-head trip')
        # ---- depot loads
        loads = {}
        for d in G(out, 'ScheduleJson', 'depot_loads').cells:
            for l in G(d.v, 'DepotLoad', 'load').cells: loads[(txt(G(d.v, 'DepotLoad', 'depot')), txt(G(l.v, 'Load', 'vehicle_type')))] = conc(G(l.v, 'Load', 'spawn_count'))
        exp = {}
        dn = {d['i']: d['id'] for d in net.depots}
        for v, nodes in T.items(): exp[(dn[net.info[nodes[0]]['depot']], 'vt%d' % V[v])] = exp.get((dn[net.info[nodes[0]]['depot']], 'vt%d' % V[v]), 0) + 1
        J.prove(pc, loads == exp and len(G(out, 'ScheduleJson', 'depot_loads').cells) == len(net.depots), 'output: depot loads = number of vehicles per start depot and type')
        J.prove = _prove
        J.sample('base %s: %d vehicles, %d segments, %d slots serialised' % ([o[0] for o in prefix], len(T), len(segs), len(slots)))
    return J.result()

def parse_iso(t):
    """'0400-01-DDTHH:MM:SS' -> seconds relative to 0400-01-01T00:00:00 (None for EARLIEST/LATEST)"""
    import re as _re
    m_ = _re.match(r'^0400-01-(\d\d)T(\d\d):(\d\d):(\d\d)$', t)
    if not m_: return None
    d, h, mi, se = map(int, m_.groups()); return (d - 1) * 86400 + h * 3600 + mi * 60 + se

def native_check(net, m, state_js, out):
    """evaluate the property's clauses on the natively produced JSON (out) of the natively produced schedule (state_js), with the model's concrete attribute values"""
    bad = []; v_ = lambda e: mval(m, e)
    idn = {I['id']: n for n, I in net.info.items()}
    tours = {v['id']: [idn[x] for x in v['tour']['nodes']] for v in state_js['vehicles']}
    vtype = {v['id']: int(v['type']) for v in state_js['vehicles']}
    lname = lambda n, end: ('NOWHERE' if TS.nowhere(net, n) else 'loc%d' % v_(TS.eloc(net, n) if end else TS.sloc(net, n)))
    segs = {d['departureSegment']: d for d in out['departureSegments']}
    if sorted(d['departureSegment'] for d in out['departureSegments']) != sorted(net.info[n]['id'] for n in net.trips): bad.append('output: every departure segment of the input is listed exactly once')
    for n in net.trips:
        I = net.info[n]; d = segs.get(I['id'])
        if d is None: continue
        if (d['origin'], d['destination'], parse_iso(d['departure']), parse_iso(d['arrival']), d['vehicleType']) != ('loc%d' % v_(I['o']), 'loc%d' % v_(I['d']), v_(I['st']), v_(I['et']), 'vt%d' % I['vt']):
            bad.append("output: a listed segment carries the input's origin, destination, departure, arrival = departure + duration and vehicle type")
        if sorted(d['formation']) != sorted(v for v, t in tours.items() if n in t) or len(set(d['formation'])) != len(d['formation']):
            bad.append('output: formation of a segment = exactly the vehicles whose itinerary contains it, none twice')
    slots = {d['maintenanceSlot']: d for d in out['maintenanceSlots']}
    if sorted(d['maintenanceSlot'] for d in out['maintenanceSlots']) != sorted(net.info[n]['id'] for n in net.maint): bad.append('output: every maintenance slot of the input is listed exactly once')
    for n in net.maint:
        I = net.info[n]; d = slots.get(I['id'])
        if d is None: continue
        if (d['location'], parse_iso(d['start']), parse_iso(d['end'])) != ('loc%d' % v_(I['sloc']), v_(I['st']), v_(I['et'])): bad.append("output: a listed slot carries the input's location and times")
        if sorted(d['formation']) != sorted(v for v, t in tours.items() if n in t): bad.append('output: formation of a slot = exactly the vehicles whose itinerary contains it')
    dn = {d['i']: d['id'] for d in net.depots}; loads = {}
    for f in out['fleet']:
        for v in f['vehicles']:
            nodes = tours.get(v['id'])
            if nodes is None: bad.append('output: the fleet of a type lists exactly its vehicles'); continue
            if (v['startDepot'], v['endDepot']) != (dn[net.info[nodes[0]]['depot']], dn[net.info[nodes[-1]]['depot']]): bad.append('output: start and end depot of a vehicle are those of its itinerary')
            if [x['departureSegment'] for x in v['departureSegments']] != [net.info[n]['id'] for n in nodes if net.info[n]['kind'] == 'Service'] or [x['maintenanceSlot'] for x in v['maintenanceSlots']] != [net.info[n]['id'] for n in nodes if net.info[n]['kind'] == 'Maintenance']:
                bad.append('output: the vehicle lists exactly the activities of its itinerary, in order')
            changes = [(a, b) for a, b in zip(nodes, nodes[1:]) if lname(a, True) != lname(b, False)]
            okd = len(changes) == len(v['deadHeadTrips'])
            for (a, b), e in zip(changes, v['deadHeadTrips']):
                dep, arr = parse_iso(e['departure']), parse_iso(e['arrival'])
                if (e['origin'], e['destination']) != (lname(a, True), lname(b, False)): okd = False
                if not TS.is_depot(net, a) and not TS.is_depot(net, b):
                    if dep is None or arr is None or not (v_(net.info[a]['et']) <= dep <= arr <= v_(net.info[b]['st'])): okd = False
                elif TS.is_depot(net, a) and not TS.is_depot(net, b) and arr is not None and arr > v_(net.info[b]['st']): okd = False
                elif not TS.is_depot(net, a) and dep is not None and dep < v_(net.info[a]['et']): okd = False
            if not okd: bad.append('output: the listed dead-head trips of a vehicle are exactly its location changes, each inside the gap it bridges')
    for d in out['depotLoads']:
        for l in d['load']: loads[(d['depot'], l['vehicleType'])] = l['spawnCount']
    exp = {}
    for v, nodes in tours.items(): exp[(dn[net.info[nodes[0]]['depot']], 'vt%d' % vtype[v])] = exp.get((dn[net.info[nodes[0]]['depot']], 'vt%d' % vtype[v]), 0) + 1
    if loads != exp: bad.append('output: depot loads = number of vehicles per start depot and type')
    return bad

def confirm(c):
    if 'native_confirmed' in c: return bool(c['native_confirmed']), json.dumps(c.get('expect'))[:500]
    return False, 'no native scenario'
