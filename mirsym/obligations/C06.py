"""C06 — solving terminates with an answer: kernel obligations (3-opt index ranges in both arithmetic modes,
feasibility preconditions of the covering circulation: overflow depot large enough, lower bound <= upper bound on every arc)."""
import z3, itertools
from ..core import *
from .. import models as M, netbuild as NB, replay
from ..harness import JobCtx
from .C17 import job_network_new            # overflow depot can host every vehicle (feasibility precondition of the circulation)
from .C14 import job_construction          # arc bounds of the covering circulation (lower <= upper on every arc: otherwise network_simplex(..).unwrap() panics)

PROPERTY = 'C06'
MIR = [('rapid_time', 'on'), ('model', 'on'), ('solution', 'on'), ('solver', 'on'), ('solver', 'off'), ('solution', 'off'), ('model', 'off'), ('rapid_time', 'off')]
ASSUMPTIONS = ['decomposed: only the kernels named in DESIGN.md section 3/C06 are claimed; termination of rapid_solve\'s local search loops and of rs_graph\'s network simplex is trusted',
               'TransitionCycle::three_opt is replaced by a recorder of its index triple in the index-range obligation (its own arithmetic is covered by C15)',
               'rayon / Box<dyn Iterator> are modelled as sequential lazy iterators']
BOUNDS = {'quick': '3-opt neighbourhood: cycle lengths 0..5 in the overflow-checked MIR and in the wrapping (release) MIR, loop budget 64 outer iterations; feasibility: as C17 network_new quick, arc bounds of the flow network as C14 construction with 1 trip',
          'thorough': 'cycle lengths 0..8; feasibility: as C17 thorough'}
OUTSIDE = 'termination of the local searches (rapid_solve) and of network_simplex; whole-pipeline panic freedom beyond the kernels'
REQUIRED_COVERS = {'quick': ['len0', 'len1', 'len2', 'len3'], 'thorough': ['len0', 'len1', 'len2', 'len3']}

def jobs(tier, seed):
    js = []
    for mode in ('on', 'off'):
        for n in range(0, 6 if tier == 'quick' else 9):
            js.append(dict(name='three_opt_ranges len=%d checks=%s' % (n, mode), func='job_ranges', kwargs=dict(n=n, mode=mode)))
    js.append(dict(name='circulation_feasible', func='job_network_new', kwargs=dict(tier=tier, trips=2, maint=1)))
    js.append(dict(name='circulation_feasible seats<capacity', func='job_network_new', kwargs=dict(tier=tier, trips=2, maint=0, caps=(7, 3))))
    for nt, allot in ((1, 0), (1, 1)): js.append(dict(name='circulation bounds %d trips, slot allotted=%d' % (nt, allot), func='job_construction', kwargs=dict(tier=tier, ntrips=nt, allot=allot)))
    if tier == 'thorough': js.append(dict(name='circulation_feasible_2types', func='job_network_new', kwargs=dict(tier=tier, trips=3, maint=1, two_types=True)))
    return js

def job_ranges(name, n, mode):
    triples = []
    def m_record(ex, callee, args):
        triples.append(tuple(conc(a) for a in args[1:4])); return ex.strip(args[0])
    J = JobCtx(name, ['rapid_time', 'model', 'solution', 'solver'], mode=mode, extra_models=[(r'^TransitionCycle::three_opt$', m_record)]); ex = J.ex
    ex.loop_budget = 64
    f = ex.fn_by_suffix('transition_cycle_neighborhood.rs:37:1: 37:75>::neighbors_of') if False else None
    cands = [v[0] for k, v in ex.fns.items() if 'transition_cycle_neighborhood' in k and k.endswith('::neighbors_of')]
    if len(cands) != 1: raise Unsupported('TransitionCycleNeighborhood::neighbors_of not found (%d candidates)' % len(cands))
    f = cands[0]
    outcome = {}
    def body():
        ex.pc_global = []; ex.inputs = {}; del triples[:]
        cyc = NB.S('TransitionCycle', cycle=VecVal([Cell(NB.vehidx(i)) for i in range(n)]), maintenance_counter=bv(0, 'i64'))
        info = NB.S('TransitionCycleWithInfo', cycle=cyc, print_text=StrVal('x'))
        nb = NB.S('TransitionCycleNeighborhood', tours=MapVal(name='tours'), network=M.arc(Opaque('network')))
        try:
            it = ex.call_fn(f, [Ref(Cell(nb)), Ref(Cell(info))]); it = M.to_iter(ex, it); cnt = 0
            while it.next(ex) is not None: cnt += 1
            return ('ok', cnt, list(triples))
        except Unsupported as e:
            if 'LOOP-BUDGET' in str(e): return ('nonterminating', str(e)[:200], list(triples))
            raise
    def scenario():
        return dict(instance=TINY, ops=[dict(op='tsp_neighbors', vehicles=[['veh_%d' % i, None] for i in range(n)])])
    for pc, r in J.explore(body):
        J.covers.add('len%d' % n)
        exp = len(list(itertools.combinations(range(n), 3)))
        sig = 'cycle length %d (%s)' % (n, 'len<2' if n < 2 else 'len>=2')
        def mk(m, what=''):
            return dict(signature='3-opt neighbourhood, cycle length < 2' if n < 2 else '3-opt neighbourhood, cycle length %d' % n, what=what,
                        scenario=scenario() if n < 3 else None, expect=dict(kind='tsp', neighbors=exp, mode=mode))
        if isinstance(r, Panic):
            J.panic(pc, r, clause='3-opt neighbourhood: no arithmetic panic', mk_cex=lambda m: mk(m, 'enumerating the 3-opt neighbours of a rotation cycle with %d vehicles panics: %s' % (n, r.msg[:80])))
            continue
        J.reached += 1
        if r[0] == 'nonterminating':
            J.prove(pc, False, '3-opt neighbourhood: outer loop trip count <= cycle length', lambda m: mk(m, 'release arithmetic: the index range of the 3-opt neighbourhood wraps around for a cycle with %d vehicles (2^64 iterations): %s' % (n, r[1][:90])))
            continue
        J.prove(pc, r[1] == exp and sorted(r[2]) == sorted(itertools.combinations(range(n), 3)), '3-opt neighbourhood enumerates exactly the triples i<j<k', lambda m: mk(m, 'wrong set of 3-opt moves'))
        J.sample('cycle length %d, overflow checks %s: %d neighbours, triples %s' % (n, mode, r[1], r[2][:4]))
    return J.result()

TINY = {"vehicleTypes": [{"id": "vt0", "capacity": 5, "seats": 7}], "locations": [{"id": "loc0"}], "depots": [{"id": "dep0", "location": "loc0", "capacity": 1, "allowedTypes": [{"vehicleType": "vt0"}]}],
        "routes": [{"id": "r", "vehicleType": "vt0", "segments": [{"id": "rs", "order": 0, "origin": "loc0", "destination": "loc0", "distance": 1, "duration": 60}]}],
        "departures": [{"id": "d", "route": "r", "segments": [{"id": "trip", "routeSegment": "rs", "departure": "0000-01-01T08:00:00", "passengers": 1, "seated": 1}]}],
        "deadHeadTrips": {"indices": ["loc0"], "durations": [[0]], "distances": [[0]]},
        "parameters": {"shunting": {"minimalDuration": 0, "deadHeadTripDuration": 0}, "costs": {"staff": 1, "serviceTrip": 1, "deadHeadTrip": 1, "idle": 1}}}

def confirm(c):
    from . import C17
    if c.get('job_func') == 'job_construction':
        from ..harness import confirm_on_other_flavour
        return confirm_on_other_flavour('mirsym.obligations.C14', 'job_construction', c.get('job_kwargs', {}), c['clause'])
    if not isinstance(c.get('expect'), dict) or c['expect'].get('kind') != 'tsp': return C17.confirm(c)
    sc = c.get('scenario')
    if not sc: return False, 'no native scenario for this cycle length'
    out = []; exp = c['expect']
    # the checked build must panic, the release build must not terminate (or both must disagree with the expected count)
    for prof in ('dev', 'release'):
        obs = replay.run(sc, prof, timeout=6)
        o = obs[0]
        bad = ('timeout' in o) or ('panic' in o) or o.get('neighbors') != exp['neighbors']
        out.append('%s: %s' % (prof, str(o)[:120]))
        if not bad: return False, '; '.join(out)
    return True, '; '.join(out)
