"""C17 — the loaded network faithfully encodes the instance and its reachability."""
import z3, itertools
from ..core import *
from .. import models as M, netbuild as NB, replay
from ..harness import JobCtx
from . import loader as LD
from .loader import job_loader, job_planning

PROPERTY = 'C17'
MIR = [('rapid_time', 'on'), ('model', 'on')]
CRATES = ['rapid_time', 'model']
ASSUMPTIONS = [
    'input enters as already-parsed values (serde deserialisation and date-string parsing are outside the claim)',
    'pairwise rules / enumerations: dead-head matrix diagonal is zero; all times lie on day 0400-01-01 (+ carry into the next day through the real DateTime + Duration)',
    'loader jobs: the JsonInput is an already-deserialised value of concrete shape (2 types, 2-3 locations, 2 routes / 3 route segments listed out of order, 3 departure segments, 0-1 slot, depots absent or 1-2 given, dead-head index list a permutation of the location list) with all numbers, optional fields and instants symbolic; DateTime::new maps each date token to a symbolic instant; Network::new is intercepted and its arguments compared with a reference written from the README (Network::new itself: network_new jobs); the planning horizon enters create_locations as a variable constrained by the relation the planning-horizon jobs prove of determine_planning_days (assume/guarantee)',
    'hash-map iteration order is not relied upon (maps are abstract finite maps; BTreeMaps are ordered by the real derived Ord executed from MIR)',
]
BOUNDS = {
    'quick': 'loader: 4 shapes (default depots / given depots / no maintenance / three locations), passengers and seated <= 2^30, other numbers up to u32::MAX / 2^62; pairwise rules: 2 locations, 2 service trips + 1 maintenance slot + 1 depot + overflow depot, every ordered node pair, times < 4096 s, durations 1..1024 s, dead-heads/shunting symbolic; enumerations: 2 service trips + 1 slot, 1 type',
    'thorough': 'loader: the same 4 shapes with times over a full day; pairwise rules: 3 locations, times over a full day (< 86400 s, arrival may carry into the next day); enumerations: up to 3 service trips + 1 slot, 2 types, 2 depots; Network::new on the same shapes',
}
OUTSIDE = 'serde/JSON parsing and date-string parsing (DateTime::new is a table from tokens to symbolic instants); values beyond u32 (the loader truncates with `as`); vehicle capacities/seats symbolic (concrete, pairwise distinct in the loader jobs); instances larger than the bounds'
_COV = ['tie:end==start reachable', 'limit:segment-only', 'limit:both', 'limit:type-only', 'limit:neither', 'default depots', 'zero passengers', 'dead-head beyond horizon']
REQUIRED_COVERS = {'quick': _COV, 'thorough': _COV}

def spec_for(tier, trips=2, maint=1, level='basic', types=None, depots=None):
    kw = dict(nloc=2, trips=[dict(vt=0) for _ in range(trips)], maint=maint, level=level, types=types, depots=depots)
    if tier == 'thorough': kw.update(nloc=3, tmax=86400 - 4096, dmax=4095, ttmax=4096, shmax=1024)
    return NB.Spec(**kw)

def jobs(tier, seed):
    js = []
    js.append(dict(name='formation_limit', func='job_formation_limit', kwargs=dict(tier=tier)))
    js.append(dict(name='required_vehicles', func='job_required', kwargs=dict(tier=tier)))
    js.append(dict(name='depot_capacity', func='job_depot_capacity', kwargs=dict(tier=tier)))
    nn = 4 + 2 + 1     # 2 depots (start/end each incl. overflow) + 2 trips + 1 slot
    for a in range(nn):
        for b in range(nn):
            js.append(dict(name='can_reach_%d_%d' % (a, b), func='job_can_reach', kwargs=dict(tier=tier, a=a, b=b)))
    for target in range(nn):
        js.append(dict(name='preds_succs_%d' % target, func='job_preds_succs', kwargs=dict(tier=tier, target=target, trips=2, maint=1)))
    if tier == 'thorough':
        for target in range(4 + 3 + 1):
            js.append(dict(name='preds_succs3_%d' % target, func='job_preds_succs', kwargs=dict(tier=tier, target=target, trips=3, maint=1)))
    js.append(dict(name='network_new', func='job_network_new', kwargs=dict(tier=tier, trips=2, maint=1)))
    js.append(dict(name='network_new seats<capacity', func='job_network_new', kwargs=dict(tier=tier, trips=2, maint=0, caps=(7, 3))))
    for v in LD.VARIANTS[tier]: js.append(dict(name='planning horizon %s' % v, func='job_planning', kwargs=dict(tier=tier, variant=v)))
    for v in LD.VARIANTS[tier]: js.append(dict(name='loader %s' % v, func='job_loader', kwargs=dict(tier=tier, variant=v)))
    if tier == 'thorough':
        js.append(dict(name='network_new_2types', func='job_network_new', kwargs=dict(tier=tier, trips=3, maint=1, two_types=True)))
    return js

# ------------------------------------------------------------------------------------------------ helpers
def mval(m, e):
    if isinstance(e, (int, bool, str)): return e
    v = m.eval(e, model_completion=True)
    if z3.is_int_value(v): return v.as_long()
    if z3.is_true(v): return True
    if z3.is_false(v): return False
    return str(v)

def node_id(net, n): return net.info[n]['id']

# ------------------------------------------------------------------------------------------------ jobs
def job_formation_limit(name, tier):
    J = JobCtx(name, CRATES); ex = J.ex
    f = ex.resolve_fn('Network::maximal_formation_count_for')
    def body():
        ex.pc_global = []; ex.inputs = {}
        sp = NB.Spec(nloc=2, types=[dict(cap=5, seats=7, limit='sym', limit_max=2**32 - 1)], trips=[dict(vt=0, limit='sym', limit_max=2**32 - 1)], maint=0)
        net = NB.build(ex, sp)
        r = ex.call_fn(f, [Ref(Cell(net.nw)), net.info[net.trips[0]]['idx']])
        return net, r
    for pc, r in J.explore(body):
        if isinstance(r, Panic): J.panic(pc, r); continue
        net, res = r; J.reached += 1
        tp, tv = net.types[0]['limit']; sp_, sv = net.info[net.trips[0]]['limit']
        gp, gv = M.opt_parts(ex, res)
        got_val = gv.e if gv is not None else z3.IntVal(-1)
        spec_present = z3.Or(tp, sp_)
        spec_val = z3.If(z3.And(tp, sp_), z3.If(tv < sv, tv, sv), z3.If(tp, tv, sv))
        for tag, cond in (('limit:segment-only', z3.And(z3.Not(tp), sp_)), ('limit:type-only', z3.And(tp, z3.Not(sp_))), ('limit:both', z3.And(tp, sp_)), ('limit:neither', z3.And(z3.Not(tp), z3.Not(sp_)))):
            if J.sat(pc, cond) is not None: J.covers.add(tag)
        def mk(m, net=net):
            t = net.trips[0]
            sig = 'type-limit %s, segment-limit %s' % ('present' if mval(m, tp) else 'absent', 'present' if mval(m, sp_) else 'absent')
            exp = (min([x for x in ([mval(m, tv)] if mval(m, tp) else []) + ([mval(m, sv)] if mval(m, sp_) else [])]) if (mval(m, tp) or mval(m, sp_)) else None)
            return dict(signature=sig, what='maximal formation count of a segment is not the minimum of the limits that are present (%s)' % sig,
                        scenario=dict(instance=NB.to_json(net, m), ops=[dict(op='formation_limit', node=node_id(net, t))]), expect=[exp])
        J.prove(pc, z3.And(spec_present == Z(gp), z3.Implies(spec_present, Z(got_val) == spec_val)), 'formation-limit = min of present limits', mk)
        J.sample('maximal_formation_count_for(trip) == min(present limits); path returns present=%s value=%s' % (sx(gp), sx(got_val)))
    return J.result()

def job_required(name, tier):
    J = JobCtx(name, CRATES); ex = J.ex
    f = ex.resolve_fn('Network::number_of_vehicles_required_to_serve')
    caps = [(1, 1), (5, 7), (7, 5), (100, 80)] + ([(3, 1000), (64, 64), (999, 1)] if tier == 'thorough' else [])
    for cap, seats in caps:
        def body():
            ex.pc_global = []; ex.inputs = {}
            sp = NB.Spec(nloc=2, types=[dict(cap=cap, seats=seats, limit=None)], trips=[dict(vt=0)], maint=0, paxmax=2**32 - 1)
            net = NB.build(ex, sp)
            r = ex.call_fn(f, [Ref(Cell(net.nw)), NB.vtidx(0), net.info[net.trips[0]]['idx']])
            return net, r
        for pc, r in J.explore(body):
            if isinstance(r, Panic):
                # u32 overflow inside div_ceil cannot happen (std's div_ceil does not add); any panic is a finding
                J.panic(pc, r); continue
            net, res = r; J.reached += 1
            I = net.info[net.trips[0]]; p, s = I['pax'], I['seated']
            a = (p + cap - 1) / cap; b = (s + seats - 1) / seats
            def mk(m, net=net, I=I):
                pv, sv = mval(m, p), mval(m, s)
                return dict(signature='required-vehicles', what='required vehicles != max(ceil(p/cap), ceil(s/seats))',
                            scenario=dict(instance=NB.to_json(net, m), ops=[dict(op='required', node=I['id'])]), expect=[max(-(-pv // cap), -(-sv // seats))])
            J.prove(pc, res.e == z3.If(a >= b, a, b), 'required vehicles = max(ceil(p/cap), ceil(s/seats))', mk)
            J.sample('capacity=%d seats=%d: required == max(ceil(p/%d), ceil(s/%d)) for all p in [1,2^32), s in [0,2^32)' % (cap, seats, cap, seats))
    return J.result()

def job_depot_capacity(name, tier):
    J = JobCtx(name, CRATES); ex = J.ex
    f = ex.resolve_fn('Network::capacity_of'); g = ex.resolve_fn('Network::total_capacity_of')
    for allowed in ('none', 'sym', 'absent'):
        def body():
            ex.pc_global = []; ex.inputs = {}
            sp = NB.Spec(nloc=2, types=[dict(cap=5, seats=7, limit=None), dict(cap=5, seats=7, limit=None)], trips=[dict(vt=0)], maint=0,
                         depots=[dict(allowed={0: allowed, 1: 'none'})], capmax=2**32 - 1)
            net = NB.build(ex, sp)
            r = ex.call_fn(f, [Ref(Cell(net.nw)), NB.didx(0), NB.vtidx(0)]); t = ex.call_fn(g, [Ref(Cell(net.nw)), NB.didx(0)])
            return net, r, t
        for pc, r in J.explore(body):
            if isinstance(r, Panic): J.panic(pc, r); continue
            net, res, tot = r; J.reached += 1
            d = net.depots[0]; a = d['allowed'][0]
            spec = z3.IntVal(0) if a[0] == 'absent' else (d['cap'] if a[0] == 'none' else z3.If(a[1] < d['cap'], a[1], d['cap']))
            J.prove(pc, z3.And(res.e == spec, tot.e == d['cap']), 'depot capacity for a type = min(per-type, total); 0 if the type is not listed')
            J.sample('Depot::capacity_for with allowed_types[type]=%s == %s' % (allowed, sx(spec)))
    return J.result()

def _net_for_pairs(ex, tier):
    return NB.build(ex, spec_for(tier, trips=2, maint=1))

def job_can_reach(name, tier, a, b):
    J = JobCtx(name, CRATES); ex = J.ex
    can_reach = ex.resolve_fn('Network::can_reach')
    mind = ex.resolve_fn('Network::minimal_duration_between_nodes')
    dht = ex.resolve_fn('Network::dead_head_time_between'); dhd = ex.resolve_fn('Network::dead_head_distance_between')
    def body():
        ex.pc_global = []; ex.inputs = {}
        net = _net_for_pairs(ex, tier)
        nw = Ref(Cell(net.nw)); ia, ib = net.info[a]['idx'], net.info[b]['idx']
        r = ex.call_fn(can_reach, [nw, ia, ib])
        reach = ex.decide(r.e)
        extra = None
        if net.info[a]['kind'] in ('Service', 'Maintenance') and net.info[b]['kind'] in ('Service', 'Maintenance'):
            extra = (ex.call_fn(mind, [nw, ia, ib]), ex.call_fn(dht, [nw, ia, ib]), ex.call_fn(dhd, [nw, ia, ib]))
        return net, reach, extra
    for pc, r in J.explore(body):
        if isinstance(r, Panic): J.panic(pc, r); continue
        net, reach, extra = r; J.reached += 1
        spec = NB.spec_can_reach(net, a, b)
        A, B = net.info[a], net.info[b]
        def mk(m, net=net, reach=reach):
            return dict(signature='can_reach %s->%s' % (A['kind'], B['kind']), what='can_reach(%s,%s) differs from the documented timing rule' % (A['id'], B['id']),
                        scenario=dict(instance=NB.to_json(net, m), ops=[dict(op='can_reach', a=A['id'], b=B['id'])]), expect=[bool(mval(m, spec))])
        J.prove(pc, spec == z3.BoolVal(reach), 'can_reach = documented timing rule', mk)
        if extra is not None:
            md, tt, dd = extra
            same = A['eloc'] == B['sloc']
            stt = NB.spec_travel_time(net, A['eloc'], B['sloc']); sdd = NB.spec_distance(net, A['eloc'], B['sloc'])
            smd = z3.If(same, net.shmin, stt + 2 * net.shdht)
            def secs(d): return d.fields[0].fields[0].e if d.variant == 0 else None
            ok = z3.BoolVal(md.variant == 0 and tt.variant == 0 and dd.variant == 0)
            if md.variant == 0 and tt.variant == 0 and dd.variant == 0:
                ok = z3.And(secs(md) == smd, secs(tt) == z3.If(same, 0, stt), dd.fields[0].e == z3.If(same, 0, sdd))
            def mk2(m, net=net):
                return dict(signature='minimal duration %s->%s' % (A['kind'], B['kind']), what='minimal_duration_between_nodes(%s,%s) differs from shunting / travel + 2 x dead-head shunting' % (A['id'], B['id']),
                            scenario=dict(instance=NB.to_json(net, m), ops=[dict(op='min_duration', a=A['id'], b=B['id'])]), expect=[mval(m, smd)])
            J.prove(pc, ok, 'minimal duration / dead-head time / dead-head distance between activities', mk2)
            if J.sat(pc, z3.And(A['et'] == B['st'], z3.BoolVal(reach))) is not None: J.covers.add('tie:end==start reachable')
        J.witness(pc, lambda m, net=net, reach=reach: dict(scenario=dict(instance=NB.to_json(net, m), ops=[dict(op='can_reach', a=A['id'], b=B['id'])]), symbolic=[bool(reach)]))
        J.sample('can_reach(%s:%s, %s:%s) == rule, path reach=%s' % (A['kind'], A['id'], B['kind'], B['id'], reach))
    return J.result()

def job_preds_succs(name, tier, target, trips, maint):
    J = JobCtx(name, CRATES); ex = J.ex
    preds = ex.resolve_fn('Network::predecessors'); succs = ex.resolve_fn('Network::successors')
    def body():
        ex.pc_global = []; ex.inputs = {}
        net = NB.build(ex, spec_for(tier, trips=trips, maint=maint, level='full'))
        nw = Ref(Cell(net.nw)); tgt = net.info[target]['idx']
        def collect(fn):
            it = ex.call_fn(fn, [nw, NB.vtidx(0), tgt]); got = []
            it = M.to_iter(ex, it)
            while True:
                x = it.next(ex)
                if x is None: break
                got.append(conc(x.fields[0]))
            return got
        return net, collect(preds), collect(succs)
    for pc, r in J.explore(body):
        if isinstance(r, Panic): J.panic(pc, r); continue
        net, gp, gs = r; J.reached += 1
        T = net.info[target]
        for which, got, rel in (('predecessors', gp, lambda m: NB.spec_can_reach(net, m, target)), ('successors', gs, lambda m: NB.spec_can_reach(net, target, m))):
            dup = len(set(got)) != len(got)
            conj = [z3.BoolVal(not dup)]
            for m_ in sorted(net.info):
                conj.append(rel(m_) == z3.BoolVal(m_ in got))
            def mk(m, net=net, got=got, which=which, rel=rel):
                exp = sorted(net.info[x]['id'] for x in net.info if mval(m, rel(x)) is True)
                miss = [x for x in net.info if mval(m, rel(x)) is True and x not in got]
                extra_ = [x for x in got if mval(m, rel(x)) is not True]
                sig = which + ': '
                if miss:
                    x = miss[0]; X = net.info[x]
                    tie = (which == 'predecessors' and X['kind'] in ('Service', 'Maintenance') and T['kind'] in ('Service', 'Maintenance') and mval(m, X['et']) == mval(m, T['st'])) or \
                          (which == 'successors' and X['kind'] in ('Service', 'Maintenance') and T['kind'] in ('Service', 'Maintenance') and mval(m, T['et']) == mval(m, X['st']))
                    pair = (X['kind'], T['kind']) if which == 'predecessors' else (T['kind'], X['kind'])
                    sig += 'reachable %s->%s node missing' % pair + (' (times tie)' if tie else '')
                else: sig += 'unreachable node enumerated' if extra_ else 'duplicates'
                return dict(signature=sig, what='%s(%s) is not the set of nodes related by the timing rule [%s]' % (which, T['id'], sig),
                            scenario=dict(instance=NB.to_json(net, m), ops=[dict(op=which, vt=0, node=T['id'])]), expect=[exp])
            J.prove(pc, z3.And(*conj), '%s = exactly the connectable nodes of the type' % which, mk)
        J.witness(pc, lambda m, net=net, gp=gp, gs=gs: dict(scenario=dict(instance=NB.to_json(net, m), ops=[dict(op='predecessors', vt=0, node=T['id']), dict(op='successors', vt=0, node=T['id'])]),
                                                            symbolic=[sorted(net.info[x]['id'] for x in gp), sorted(net.info[x]['id'] for x in gs)]))
        J.sample('predecessors/successors(type 0, %s) as sets == {m : rule(m,n)} ; path: preds=%s succs=%s' % (T['id'], gp, gs))
    return J.result()

def job_network_new(name, tier, trips, maint, two_types=False, caps=(5, 7)):
    """execute the real Network::new on the shape and compare field by field with netbuild's construction"""
    J = JobCtx(name, CRATES); ex = J.ex
    new = ex.resolve_fn('Network::new')
    types = [dict(cap=caps[0], seats=caps[1], limit='sym'), dict(cap=11, seats=3, limit='sym')] if two_types else [dict(cap=caps[0], seats=caps[1], limit='sym')]
    def body():
        ex.pc_global = []; ex.inputs = {}
        sp = spec_for(tier, trips=trips, maint=maint, level='full', types=types, depots=[dict(allowed={t: 'sym' for t in range(len(types))})])
        if two_types: sp.trips[-1]['vt'] = 1
        for t in sp.trips: t['limit'] = 'sym'
        sp.paxmax = 40
        net = NB.build(ex, sp)
        F = STRUCTS['Network']; g = lambda f: net.nw.fields[F.index(f)]
        depots = VecVal([Cell(clone_val(c.v.fields[0])) for k, c in g('depots').entries[:-1]])
        st = MapVal(name='service_trips')
        for t in range(len(types)):
            st.entries.append((NB.vtidx(t), Cell(VecVal([Cell(clone_val(net.nodes_map.entries[[conc(k.fields[0]) for k, c in net.nodes_map.entries].index(i)][1].v.fields[0].fields[1]))
                                                           for i in net.trips if net.info[i]['vt'] == t]))))
        ms = VecVal([Cell(clone_val(net.nodes_map.entries[[conc(k.fields[0]) for k, c in net.nodes_map.entries].index(i)][1].v.fields[0].fields[1])) for i in net.maint])
        cfg = ex.strip(Ref(g('config').fields[0])); loc = ex.strip(Ref(g('locations').fields[0])); vts = ex.strip(Ref(g('vehicle_types').fields[0]))
        r = ex.call_fn(new, [depots, st, ms, cfg, loc, vts])
        return net, r
    def same(ex, a, b, path, out):
        a = ex.strip(a); b = ex.strip(b)
        if isinstance(a, Opaque) or isinstance(b, Opaque): return
        if isinstance(a, Scalar) and isinstance(b, Scalar): out.append((path, a.e == b.e)); return
        if isinstance(a, Agg) and isinstance(b, Agg):
            if a.ty == 'Arc': return same(ex, a.fields[0].v, b.fields[0].v, path, out)
            if a.variant != b.variant or len(a.fields) != len(b.fields): out.append((path, False)); return
            for i, (x, y) in enumerate(zip(a.fields, b.fields)): same(ex, x, y, path + '.%d' % i, out)
            return
        if isinstance(a, (Agg, Lazy)) and isinstance(b, (Agg, Lazy)): out.append((path, M.val_eq(ex, a, b))); return
        if isinstance(a, VecVal) and isinstance(b, VecVal):
            if len(a.cells) != len(b.cells): out.append((path + '.len', False)); return
            for i, (x, y) in enumerate(zip(a.cells, b.cells)): same(ex, x.v, y.v, path + '[%d]' % i, out)
            return
        if isinstance(a, MapVal) and isinstance(b, MapVal):
            if len(a.entries) != len(b.entries): out.append((path + '.len', False)); return
            # keys are structurally concrete (ids) or time-keyed tuples: match by value equality of keys
            for k, c in a.entries:
                hit = None
                for k2, c2 in b.entries:
                    e = M.val_eq(ex, k, k2)
                    if e is True or (not isinstance(e, bool) and z3.is_true(z3.simplify(e))): hit = c2; break
                if hit is None:
                    # symbolic keys (time, idx): pair by the concrete NodeIdx component
                    for k2, c2 in b.entries:
                        if isinstance(k, Agg) and k.ty == 'tuple' and M.val_eq(ex, k.fields[-1], k2.fields[-1]) is True:
                            out.append((path + '.key', M.val_eq(ex, k, k2))); hit = c2; break
                if hit is None: out.append((path + '.key?', False)); continue
                same(ex, c.v, hit.v, path + '{}', out)
            return
        if isinstance(a, StrVal) and isinstance(b, StrVal): return
        out.append((path + ':' + type(a).__name__ + '/' + type(b).__name__, False))
    for pc, r in J.explore(body, max_paths=20000):
        if isinstance(r, Panic): J.panic(pc, r); continue
        net, res = r; J.reached += 1
        F = STRUCTS['Network']
        for f in F:
            if f in ('depots',):   # the overflow depot's capacity is checked against the statement below, not against netbuild's placeholder
                continue
            out = []
            same(ex, res.fields[F.index(f)], net.nw.fields[F.index(f)], f, out)
            J.prove(pc, z_and(*[c for p_, c in out]), 'Network::new field %s = reference construction' % f)
        # depots: every given depot unchanged, overflow depot last with capacity >= sum over trips of min(required, limit)
        dres = res.fields[F.index('depots')]; dref = net.nw.fields[F.index('depots')]
        out = []
        same(ex, MapVal(dres.entries[:-1]), MapVal(dref.entries[:-1]), 'depots', out)
        J.prove(pc, z_and(*[c for p_, c in out]), 'given depots are kept with their capacities')
        ov = [c.v for k, c in dres.entries if conc(k.fields[0]) == net.ndep]
        if len(ov) != 1: J.prove(pc, z3.BoolVal(False), 'overflow depot exists'); continue
        ovd = ov[0].fields[0]; cap = NB.fld(ovd, 'Depot', 'total_capacity').e
        need = z3.IntVal(0)
        for i in net.trips:
            I = net.info[i]; T = net.types[I['vt']]
            a = (I['pax'] + T['cap'] - 1) / T['cap']; b = (I['seated'] + T['seats'] - 1) / T['seats']; req = z3.If(a >= b, a, b)
            tp, tv = T['limit']; sp_, sv = I['limit']
            lim = z3.If(z3.And(tp, sp_), z3.If(tv < sv, tv, sv), z3.If(tp, tv, z3.If(sp_, sv, req)))
            need = need + z3.If(req < lim, req, lim)
        def mk(m, net=net):
            return dict(signature='overflow capacity < vehicles needed', what='overflow depot cannot host every vehicle the covering needs',
                        scenario=dict(instance=NB.to_json(net, m), ops=[dict(op='network')]), expect=[dict(need=mval(m, need))])
        J.prove(pc, cap >= need, 'overflow depot can host every vehicle', mk)
        J.sample('Network::new(%d trips, %d slot, %d types) == reference construction, field by field' % (trips, maint, len(types)))
    return J.result()

# ------------------------------------------------------------------------------------------------ native confirmation
def confirm(c):
    if c.get('loader'): return LD.confirm(c)
    sc = c.get('scenario')
    if not sc: return False, 'no scenario'
    exp = c['expect']; out = []
    for prof in ('dev', 'release'):
        obs = replay.run(sc, prof)
        if c['clause'].startswith('overflow depot can host'):
            ov = [d for d in obs[0]['depots'] if d['overflow']][0]
            bad = ov['total'] < exp[0]['need']
            out.append('%s: overflow capacity %s, needed %s' % (prof, ov['total'], exp[0]['need']))
        else:
            bad = obs != exp
            out.append('%s: native=%s spec=%s' % (prof, json_short(obs), json_short(exp)))
        if not bad: return False, '; '.join(out)
    return True, '; '.join(out)
def validate(w):
    if w.get('loader'): return LD.validate(w)
    obs = replay.run(w['scenario'], 'dev')
    return (obs == w['symbolic']), 'native %s / symbolic %s' % (json_short(obs), json_short(w['symbolic']))
def json_short(x):
    import json
    return json.dumps(x)[:300]
