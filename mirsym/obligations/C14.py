"""C14 / C07 — the min-cost-flow start solution: network construction (nodes, arcs = exactly the connectable pairs, bounds,
costs, spawning cost) executed symbolically up to the network_simplex call, and the decoding of a SYMBOLIC feasible
circulation into tours.  network_simplex itself (rs_graph, registry crate) is trusted to return an optimal circulation."""
import z3, itertools, re
from ..core import *
from .. import models as M, netbuild as NB, replay
from ..harness import JobCtx
from ..specs import tour as TS, schedule as SS
from .tourops import mval, F

PROPERTY = 'C14'
CRATES = ['rapid_time', 'model', 'solution', 'solver']
MIR = [('rapid_time', 'on'), ('model', 'on'), ('solution', 'on'), ('solver', 'on'), ('rapid_time', 'off'), ('model', 'off'), ('solution', 'off'), ('solver', 'off')]
ASSUMPTIONS = ['rs_graph\'s graph builder is modelled as an edge recorder; network_simplex is not executed: in the construction obligations the run stops at its call and the labelled graph is compared with the reference graph; in the decoding obligations it returns an arbitrary (symbolic) feasible circulation with flows <= 2',
               'network value built by netbuild, full level (time-sorted listings by the real Ord from MIR)',
               'cost rates concrete (2,3,5,7,11); the cost_overflow_checker\'s products of two symbolic quantities are abstracted to interval-bounded fresh variables (they only feed overflow warnings)',
               'maintenance slots are handed to solve_for_vehicle_type as a symbolic allotment (distribute_maintenance_slots uses floating point and is outside this technique)']
BOUNDS = {'quick': 'construction: 1 type, 1 service trip + maintenance slot (allotted or not) and 2 service trips (slot not allotted), 1 real depot + overflow, all attributes symbolic incl. both limits; decoding: 1 service trip + slot (allotted or not), every feasible circulation with flows 0..2',
          'thorough': 'construction additionally with 2 service trips + allotted slot; decoding as quick. Measured and therefore NOT part of the plan: construction with 3 trips and decoding with 2 trips did not finish within the 30-minute job cap'}
OUTSIDE = 'optimality of network_simplex; distribute_maintenance_slots (floating point); comparison with an independently computed optimum on whole instances; depot totals coupling several types'
REQUIRED_COVERS = {'quick': ['arc:service->service', 'limit:none->100', 'maintenance allotted', 'decoded a tour']}
REQUIRED_COVERS['thorough'] = REQUIRED_COVERS['quick']

class ReachedSimplex(Exception):
    def __init__(self, payload): self.payload = payload
class Builder:
    def __init__(self): self.n = 0; self.edges = []
def _models(stop_at_simplex=True, flow_model=None):
    def m_add_node(ex, c, a):
        b = ex.strip(a[0]); b.n += 1; return Agg('RsNode', None, [bv(b.n - 1, 'u32')])
    def m_add_edge(ex, c, a):
        b = ex.strip(a[0]); b.edges.append((conc(a[1].fields[0]), conc(a[2].fields[0]))); return Agg('RsEdge', None, [bv(len(b.edges) - 1, 'u32')])
    def m_simplex(ex, c, a):
        g = ex.strip(a[0]); edges_map = ex.strip(ex.strip(a[2]).fields[0])
        if stop_at_simplex: raise ReachedSimplex((g, edges_map))
        return flow_model(ex, g, edges_map)
    return [
        (r'^<LinkedListGraph(<.*>)? as (rs_graph::)?Buildable>::new_builder$', lambda ex, c, a: Builder()),
        (r'^<LinkedListGraphBuilder<.*> as (rs_graph::)?Builder>::add_node$', m_add_node),
        (r'^<LinkedListGraphBuilder<.*> as (rs_graph::)?Builder>::add_edge$', m_add_edge),
        (r'^<LinkedListGraphBuilder<.*> as (rs_graph::)?Builder>::into_graph$', lambda ex, c, a: a[0]),
        (r'^<LinkedListGraph(<.*>)? as (rs_graph::traits::)?FiniteGraph>::num_(nodes|edges)$', lambda ex, c, a: bv(0, 'usize')),
        (r'^network_simplex::<.*>$', m_simplex),
        (r'^(Instant::now|stdout|Arguments::<.*>::from_str|Instant::elapsed|std::time::Instant::now|std::time::Instant::elapsed)$', lambda ex, c, a: Opaque(c)),
        (r'^<Stdout as std::io::Write>::flush$', lambda ex, c, a: ok(UNIT)),
        (r'^std::time::Duration::as_secs_f32$', lambda ex, c, a: FloatV(0.0)),
        (r'^<std::array::IntoIter<.*> as Iterator>::max$', M.m_it_max),
        (r'^Network::depots_iter$', lambda ex, c, a: M.ListIter([copy_val(k) for k, cc in F(ex.strip(a[0]), 'Network', 'depots').entries])),
        (r'^<LinkedListGraph(<.*>)? as (rs_graph::traits::)?Directed>::inedges$', lambda ex, c, a: _inedges(ex, a)),
        (r'^<LinkedListGraph(<.*>)? as (rs_graph::traits::)?IndexGraph>::edge_id$', lambda ex, c, a: Scalar(ex.strip(a[1]).fields[0].e, 'usize')),
        (r'^(std::iter::)?repeat::<.*>$', lambda ex, c, a: RepeatIt(a[0])),
    ]
class RepeatIt(M.It):
    def __init__(self, v): self.v = v
    def next(self, ex): return copy_val(self.v)
def _inedges(ex, a):
    g = ex.strip(a[0]); n = conc(ex.strip(a[1]).fields[0])
    return M.ListIter([tup(Agg('RsEdge', None, [bv(i, 'u32')]), Agg('RsNode', None, [bv(s, 'u32')])) for i, (s, t) in enumerate(g.edges) if t == n])

def mk_spec(tier, ntrips):
    sp = NB.Spec(nloc=2, types=[dict(cap=5, seats=7, limit='sym', limit_max=3)], depots=[dict(allowed={0: 'sym'})], trips=[dict(vt=0, limit='sym', limit_max=3) for _ in range(ntrips)], maint=1,
                 level='full', maxdist=0, paxmax=16, capmax=3)
    sp.overflow_cap = 8; sp.ordered_trips = True
    return sp

def jobs(tier, seed):
    js = []
    # measured: construction with 3 trips and decoding with 2 trips do not finish within the 30-minute job cap; they are not part of the plan
    cons = ((1, 0), (1, 1), (2, 0)) if tier == 'quick' else ((1, 0), (1, 1), (2, 0), (2, 1))
    for nt, allot in cons:
        js.append(dict(name='construction %d trips, slot allotted=%d' % (nt, allot), func='job_construction', kwargs=dict(tier=tier, ntrips=nt, allot=allot)))
    for nt, allot in ((1, 0), (1, 1)):
        js.append(dict(name='decoding %d trips, slot allotted=%d' % (nt, allot), func='job_decode', kwargs=dict(tier=tier, ntrips=nt, allot=allot)))
    return js

def run_construction(ex, net, allot):
    vt0 = NB.vtidx(0); nw = net.nw
    maint = MapVal(name='maint')
    if allot: maint.entries.append((net.info[net.maint[0]]['idx'], Cell(bv(allot, 'u32'))))
    solver = NB.S('MinCostFlowSolver', vehicle_types=F(nw, 'Network', 'vehicle_types'), config=F(nw, 'Network', 'config'), network=net.arc)
    sf = [v[0] for k, v in ex.fns.items() if k.endswith('::solve_for_vehicle_type')]
    if len(sf) != 1: raise Unsupported('solve_for_vehicle_type: %d candidates' % len(sf))
    try:
        ex.call_fn(sf[0], [Ref(Cell(solver)), vt0, maint])
    except ReachedSimplex as r:
        return r.payload
    raise Unsupported('network_simplex was not reached')

def job_construction(name, tier, ntrips, allot, mode='on'):
    J = JobCtx(name, CRATES, mode=mode, extra_models=_models(True)); ex = J.ex; ex.abstract_products = True
    def body():
        ex.pc_global = []; ex.inputs = {}
        net = NB.build(ex, mk_spec(tier, ntrips))
        g, edges_map = run_construction(ex, net, allot)
        return net, g, edges_map
    for pc, r in J.explore(body, max_paths=60000):
        if isinstance(r, Panic): J.panic(pc, r, clause='construction: does not panic'); continue
        net, g, edges_map = r; J.reached += 1
        labels = {conc(k.fields[0]): c.v for k, c in edges_map.entries}
        lab = lambda i: (F(labels[i], 'EdgeLabel', 'lower_bound').e, F(labels[i], 'EdgeLabel', 'upper_bound').e, F(labels[i], 'EdgeLabel', 'cost').e)
        # --- identify the split nodes: trip edges come first (service_nodes order), then allotted slots, then depots; read the structure off the recorder
        E = g.edges; nE = len(E)
        trips = list(net.trips); c = net.costs
        # service trips appear in service_nodes order = sorted by start (netbuild orders them; ordered_trips makes that the id order up to ties)
        order = [conc(x.v.fields[0]) for x in [cc for k, cc in F(net.nw, 'Network', 'service_nodes').entries][0].v.cells]
        acts = order + ([net.maint[0]] if allot else [])
        depots = [d['i'] for d in net.depots]
        left = {}; right = {}; k = 0
        for n in acts: left[('n', n)] = k; right[('n', n)] = k + 1; k += 2
        for d in depots: left[('d', d)] = k; right[('d', d)] = k + 1; k += 2
        J.prove(pc, g.n == k, 'construction: two split nodes per service trip of the type, per allotted slot and per depot')
        edge_of = {}
        for i, (s, t) in enumerate(E): edge_of.setdefault((s, t), []).append(i)
        J.prove(pc, all(len(v) == 1 for v in edge_of.values()), 'construction: no parallel arcs')
        T = net.types[0]; tp, tv = T['limit']; typelim = z3.If(tp, tv, 100)
        total_lower = z3.IntVal(0)
        for n in order:
            I = net.info[n]; e = edge_of.get((left[('n', n)], right[('n', n)]))
            if not e: J.prove(pc, False, 'construction: every service trip has its own edge'); continue
            lo, up, cost = lab(e[0])
            a = (I['pax'] + T['cap'] - 1) / T['cap']; b = (I['seated'] + T['seats'] - 1) / T['seats']; req = z3.If(a >= b, a, b)
            p, val = SS.limit_of(net, n); lim = z3.If(p, val, 100)
            J.prove(pc, z_and(Z(up) == lim, Z(lo) == z3.If(req < lim, req, lim)), 'construction: trip edge bounds = [min(required, limit), limit] with limit = min of the present limits (100 if none)')
            J.prove(pc, Z(cost) == I['dur'] * c['service'], 'construction: trip edge cost = duration x service rate')
            total_lower = total_lower + z3.If(req < lim, req, lim)
            if J.sat(pc, z3.Not(p)) is not None: J.covers.add('limit:none->100')
        if allot:
            m = net.maint[0]; e = edge_of.get((left[('n', m)], right[('n', m)]))
            if e:
                lo, up, cost = lab(e[0])
                J.prove(pc, z_and(Z(lo) == allot, Z(up) == allot, Z(cost) == net.info[m]['dur'] * c['maint']), 'construction: allotted maintenance edge has lower = upper = allotted tracks and cost = duration x maintenance rate')
                total_lower = total_lower + allot; J.covers.add('maintenance allotted')
            else: J.prove(pc, False, 'construction: allotted slot has its own edge')
        maxrate = max(c.values())
        for d in net.depots:
            e = edge_of.get((left[('d', d['i'])], right[('d', d['i'])]))
            if not e: J.prove(pc, False, 'construction: every depot has its spawning edge'); continue
            lo, up, cost = lab(e[0]); a = d['allowed'][0]
            cap = d['cap'] if a[0] == 'none' else (z3.If(a[1] < d['cap'], a[1], d['cap']) if a[0] == 'some' else 0)
            J.prove(pc, z_and(Z(lo) == 0, Z(up) == cap), 'construction: depot edge bounds = [0, capacity of the depot for the type]')
            J.prove(pc, Z(cost) == maxrate * 3 * net.planning_days * total_lower, 'construction: spawning cost = dearest rate x 3 x planning days x total lower bound (dominates any tour cost)')
        # --- connection arcs: exactly the connectable pairs (reference rule), with bounds and costs
        def node_of(key, as_pred): return key[1] if key[0] == 'n' else (net.depots[key[1]]['start'] if as_pred else net.depots[key[1]]['end'])
        keys = [('n', n) for n in acts] + [('d', d) for d in depots]
        for p_ in keys:
            for n_ in keys:
                pn = node_of(p_, True); nn = node_of(n_, False)
                e = edge_of.get((right[p_], left[n_]))
                want = TS.reach(net, pn, nn)
                J.prove(pc, want == z3.BoolVal(bool(e)), 'construction: an arc between two split nodes exists exactly if the activities are connectable under the timing rule')
                if e:
                    lo, up, cost = lab(e[0])
                    t = TS.dh_time(net, pn, nn); dep = TS.is_depot(net, pn) or TS.is_depot(net, nn)
                    wcost = (net.planning_days if t is TS.INF else t) * c['dh'] + (0 if dep else TS.idle_time(net, pn, nn) * c['idle'])
                    J.prove(pc, z_and(Z(lo) == 0, Z(up) == typelim, Z(cost) == wcost), 'construction: connection arc bounds = [0, type limit or 100], cost = dead-head time x rate + idle time x rate')
                    if p_[0] == 'n' and n_[0] == 'n': J.covers.add('arc:service->service')
        J.prove(pc, nE == sum(len(v) for v in edge_of.values()) and all((s, t) in [(left[a_], right[a_]) for a_ in keys] or any((s, t) == (right[p_], left[n_]) for p_ in keys for n_ in keys) for (s, t) in E), 'construction: no other edges')
        J.sample('%d trips, slot allotted=%d: %d split nodes, %d edges; trip order %s' % (ntrips, allot, g.n, nE, order))
    return J.result()

def job_decode(name, tier, ntrips, allot, mode='on'):
    """the decoding loop of solve_for_vehicle_type on an arbitrary feasible circulation (symbolic flows within the real, symbolic bounds)"""
    flows = {}
    def flow_model(ex, g, edges_map):
        labels = {conc(k.fields[0]): c.v for k, c in edges_map.entries}
        fs = []
        for i, (s_, t_) in enumerate(g.edges):
            f = sym_int(ex, 'flow%d' % i, 'i64', 0, 2); fs.append(f)
            ex.assume(z3.And(Z(F(labels[i], 'EdgeLabel', 'lower_bound').e) <= f.e, f.e <= Z(F(labels[i], 'EdgeLabel', 'upper_bound').e)))
        for n in range(g.n):
            ex.assume(sum((fs[i].e for i, (s_, t_) in enumerate(g.edges) if t_ == n), z3.IntVal(0)) == sum((fs[i].e for i, (s_, t_) in enumerate(g.edges) if s_ == n), z3.IntVal(0)))
        flows['f'] = fs; flows['g'] = g
        return some(tup(bv(0, 'i64'), VecVal([Cell(tup(Agg('RsEdge', None, [bv(i, 'u32')]), fs[i])) for i in range(len(fs))])))
    J = JobCtx(name, CRATES, mode=mode, extra_models=_models(False, flow_model)); ex = J.ex; ex.abstract_products = True
    def body():
        ex.pc_global = []; ex.inputs = {}; flows.clear()
        net = NB.build(ex, mk_spec(tier, ntrips))
        vt0 = NB.vtidx(0); nw = net.nw
        maint = MapVal(name='maint')
        if allot: maint.entries.append((net.info[net.maint[0]]['idx'], Cell(bv(allot, 'u32'))))
        solver = NB.S('MinCostFlowSolver', vehicle_types=F(nw, 'Network', 'vehicle_types'), config=F(nw, 'Network', 'config'), network=net.arc)
        sf = [v[0] for k, v in ex.fns.items() if k.endswith('::solve_for_vehicle_type')][0]
        tours = ex.call_fn(sf, [Ref(Cell(solver)), vt0, maint])
        return net, tours, flows['g'], list(flows['f'])
    for pc, r in J.explore(body, max_paths=100000):
        if isinstance(r, Panic):
            J.panic(pc, r, clause='decoding: does not panic on a feasible circulation without depot-to-depot flow', allowed=None); continue
        net, tours, g, fs = r; J.reached += 1
        T = [[conc(c.v.fields[0]) for c in t.v.cells] for t in tours.cells]
        order = [conc(x.v.fields[0]) for x in [cc for k, cc in F(net.nw, 'Network', 'service_nodes').entries][0].v.cells]
        acts = order + ([net.maint[0]] if allot else []); depots = [d['i'] for d in net.depots]
        left = {}; right = {}; k = 0
        for n in acts: left[('n', n)] = k; right[('n', n)] = k + 1; k += 2
        for d in depots: left[('d', d)] = k; right[('d', d)] = k + 1; k += 2
        eidx = {(s_, t_): i for i, (s_, t_) in enumerate(g.edges)}
        def key_of(n, as_pred):
            I = net.info[n]
            return ('d', I['depot']) if I['kind'] in ('StartDepot', 'EndDepot') else ('n', n)
        d2d = [fs[eidx[(right[('d', a)], left[('d', b)])]].e for a in depots for b in depots if (right[('d', a)], left[('d', b)]) in eidx]
        pre = z_and(*[x == 0 for x in d2d])          # precondition: no flow from depot to depot (never optimal: it costs a spawn)
        ok_struct = all(len(t) >= 3 and net.info[t[0]]['kind'] == 'StartDepot' and net.info[t[-1]]['kind'] == 'EndDepot' and all(net.info[x]['kind'] in ('Service', 'Maintenance') for x in t[1:-1]) for t in T)
        J.prove(pc, z_or(z_not(pre), ok_struct), 'decoding: every tour starts at a start depot, ends at an end depot and has activities in between')
        if ok_struct:
            conj = []
            for n in acts: conj.append(sum(1 for t in T for x in t if x == n) == fs[eidx[(left[('n', n)], right[('n', n)])]].e)
            cnt = {}
            for t in T:
                for a, b in zip(t, t[1:]): cnt[(right[key_of(a, True)], left[key_of(b, False)])] = cnt.get((right[key_of(a, True)], left[key_of(b, False)]), 0) + 1
            for (s_, t_), i in eidx.items():
                if any((s_, t_) == (left[x], right[x]) for x in left): continue
                conj.append(cnt.get((s_, t_), 0) == fs[i].e)
            conj.append(all(e in eidx for e in cnt))
            for d in depots: conj.append(sum(1 for t in T if net.info[t[0]]['depot'] == d) == fs[eidx[(left[('d', d)], right[('d', d)])]].e)
            J.prove(pc, z_or(z_not(pre), z_and(*conj)), 'decoding: every flow unit becomes exactly one tour (per activity, per arc and per depot the tours carry exactly the flow)')
            J.prove(pc, z_or(z_not(pre), z_and(*[TS.valid_tour(net, t)[1] for t in T])), 'decoding: consecutive nodes of every decoded tour are connectable')
            if T: J.covers.add('decoded a tour')
            if any(len(t) > 3 for t in T): J.covers.add('decoded a tour with two activities')
        J.sample('%d trips: decoded tours %s' % (ntrips, T))
    return J.result()

def confirm(c):
    from ..harness import confirm_on_other_flavour
    return confirm_on_other_flavour('mirsym.obligations.C14', c['job_func'], c.get('job_kwargs', {}), c['clause'])
