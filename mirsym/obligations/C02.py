"""C02 — formation, track and depot capacity limits (limit clauses on every reachable schedule of the scripts; limit function itself in C17)."""
from .schedops import *
from . import schedops as SO
from . import C10 as _C10
PROPERTY = 'C02'
ASSUMPTIONS = _C10.ASSUMPTIONS + ['limits are symbolic: type limit and segment limit each present or absent, depot total and per-type capacities 0..2, track counts 0..2; the oracle is min(type limit, segment limit), not the repository\'s own limit function',
                                  'flow upper bounds of the min-cost-flow start solution are checked in C14/C07']
BOUNDS = _C10.BOUNDS; OUTSIDE = _C10.OUTSIDE + '; whole solve runs'; REQUIRED_COVERS = _C10.REQUIRED_COVERS
def jobs(tier, seed): return SO.all_jobs(tier, seed, ['C02'])
