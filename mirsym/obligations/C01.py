"""C01 — itineraries are time-, place- and type-feasible (on every schedule reachable by the scripts; rests on C17 and C12)."""
from .schedops import *
from . import schedops as SO
from . import C10 as _C10
PROPERTY = 'C01'
ASSUMPTIONS = _C10.ASSUMPTIONS + ['decomposed: can_reach = documented rule (C17), tour constructors/edits return valid tours (C12); here: every tour stored in a reachable schedule is depot..depot, connectable by the reference rule, and type-compatible']
BOUNDS = _C10.BOUNDS; OUTSIDE = _C10.OUTSIDE + '; the end-to-end solve run'; REQUIRED_COVERS = _C10.REQUIRED_COVERS
def jobs(tier, seed): return SO.all_jobs(tier, seed, ['C01'])
