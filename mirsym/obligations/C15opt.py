"""C15, second half — "the transition optimisation returns cycles ... whose violation, then counter, is not worse".

Decomposition (each part decided here from MIR, the bookkeeping itself by the scripts of C15.py):
 (a) transition_objective::build has exactly the levels [maintenance violation, maintenance counter], coefficient 1 each, and its
     indicators read exactly Transition::total_maintenance_violation / total_maintenance_counter; the cycle objective has the
     single level maintenance counter of the TransitionCycle;
 (b) build_transition_local_search_solver hands ParallelLocalSearchSolver::with_options the TransitionNeighborhood over the
     schedule's own tours, that objective, no custom improver and no limits; build_transition_cycle_tsp_solver does the same for
     LocalSearchSolver with the TransitionCycleNeighborhood and the cycle objective;
 (c) the improvers these constructors then install — rapid_solve's ParallelMinimizer::improve (C08) and the sequential
     Minimizer::improve, executed here from the registry crate's MIR with K symbolic candidates — return a candidate only if
     it is strictly smaller in the lexicographic order of the levels.
Hence every accepted step strictly decreases (violation, counter) as cached; the cached figures equal recomputation after
move_vehicle / replace_cycle / three_opt by the scripts of C15.py; the vehicle set is preserved by the partition clause."""
import z3, re
from ..core import *
from .. import models as M, netbuild as NB
from ..harness import JobCtx
from .C04 import read_objective
from .C08 import lex_lt, lex_le

CRATES = ['solver', 'rapid_solve', 'solution']

def jobs(tier):
    js = [dict(name='transition objective and indicators', func='job_tr_objective', kwargs={}),
          dict(name='transition search configuration', func='job_tr_config', kwargs={})]
    for k in range(0, 4 if tier == 'quick' else 5):
        js.append(dict(name='sequential improver step, %d candidates' % k, func='job_seq_improve', kwargs=dict(k=k)))
    return js

def F_(v, sname, fname): return v.fields[STRUCTS[sname].index(fname)]

def job_tr_objective(name, mode='on'):
    J = JobCtx(name, CRATES, mode=mode); ex = J.ex
    ICOEF = (ENUMS['Coefficient'].index('Integer'), 1)
    for key, want in (('transition_objective::build', ['MaintenanceViolationIndicator', 'MaintenanceCounterIndicator']), ('transition_cycle_objective::build', ['MaintenanceCounterIndicator'])):
        cands = [v[0] for k, v in ex.fns.items() if k == key]
        if len(cands) != 1: raise Unsupported('%s: %d candidates' % (key, len(cands)))
        def body():
            ex.pc_global = []; ex.inputs = {}
            return ex.call_fn(cands[0], [])
        for pc, r in J.explore(body):
            if isinstance(r, Panic): J.panic(pc, r, clause='optimisation: objective build does not panic'); continue
            J.reached += 1
            levels = read_objective(ex, r)
            J.prove(pc, levels == [[ICOEF + (n,)] for n in want], 'optimisation: %s has the levels %s in this order, coefficient 1 each' % (key, want))
            J.sample('%s -> %s' % (key, levels))
    # indicators: which impl reads which cached figure
    inds = {}
    for k, v in ex.fns.items():
        if k.endswith('::evaluate') and ('transition_objective.rs' in k or 'transition_cycle_objective.rs' in k):
            tr, ty = IMPLS.get(impl_key(k), (None, None))
            inds[('cycle' if 'transition_cycle_objective.rs' in k else 'transition', ty)] = v[0]
    want_keys = [('transition', 'MaintenanceViolationIndicator'), ('transition', 'MaintenanceCounterIndicator'), ('cycle', 'MaintenanceCounterIndicator')]
    if sorted(inds) != sorted(want_keys): raise Unsupported('transition indicators found: %s' % sorted(inds))
    for (scope, ind), fn in sorted(inds.items()):
        def body():
            ex.pc_global = []; ex.inputs = {}
            viol = sym_int(ex, 'violation', 'i64', -2**62, 2**62); cnt = sym_int(ex, 'counter', 'i64', -2**62, 2**62); ccnt = sym_int(ex, 'cycle_counter', 'i64', -2**62, 2**62)
            if scope == 'transition':
                vals = {f: Opaque('Transition.' + f) for f in STRUCTS['Transition']}; vals.update(total_maintenance_violation=viol, total_maintenance_counter=cnt)
                inner = Agg('Transition', None, [vals[f] for f in STRUCTS['Transition']])
                w = Agg('TransitionWithInfo', None, [dict(transition=inner, print_text=StrVal('t'))[f] for f in STRUCTS['TransitionWithInfo']])
            else:
                vals = {f: Opaque('TransitionCycle.' + f) for f in STRUCTS['TransitionCycle']}; vals.update(maintenance_counter=ccnt)
                inner = Agg('TransitionCycle', None, [vals[f] for f in STRUCTS['TransitionCycle']])
                w = Agg('TransitionCycleWithInfo', None, [dict(cycle=inner, print_text=StrVal('t'))[f] for f in STRUCTS['TransitionCycleWithInfo']])
            return ex.call_fn(fn, [Ref(Cell(Opaque(ind))), Ref(Cell(w))]), viol.e, cnt.e, ccnt.e
        for pc, r in J.explore(body):
            if isinstance(r, Panic): J.panic(pc, r, clause='optimisation: indicator evaluation does not panic'); continue
            val, viol, cnt, ccnt = r; J.reached += 1
            isint = isinstance(val, Agg) and val.variant == ENUMS['BaseValue'].index('Integer') and isinstance(val.fields[0], Scalar)
            want = ccnt if scope == 'cycle' else (viol if ind == 'MaintenanceViolationIndicator' else cnt)
            J.prove(pc, z_and(isint, (Z(val.fields[0].e) == want) if isint else False), 'optimisation: the %s-level %s reads exactly the cached figure' % (scope, ind))
            J.sample('%s %s -> Integer(%s)' % (scope, ind, sx(val.fields[0].e) if isint else val))
    return J.result()

def job_tr_config(name, mode='on'):
    rec = {}
    def m_with(kind):
        def m(ex, callee, args): rec.setdefault(kind, []).append(list(args)); return Opaque(kind + ' solver')
        return m
    models = [(r'^ParallelLocalSearchSolver::<TransitionWithInfo>::with_options(::<.*>)?$', m_with('tls')),
              (r'^LocalSearchSolver::<TransitionCycleWithInfo>::with_options(::<.*>)?$', m_with('tsp')),
              (r'^TransitionNeighborhood::new$', lambda ex, c, a: Agg('TransitionNeighborhood', None, list(a))),
              (r'^TransitionCycleNeighborhood::new$', lambda ex, c, a: Agg('TransitionCycleNeighborhood', None, list(a))),
              (r'^Schedule::get_tours$', lambda ex, c, a: Ref(Cell(Opaque('tours of the schedule')))),
              (r'^<im::HashMap<VehicleIdx, Tour> as Clone>::clone$', lambda ex, c, a: ex.strip(a[0])),
              (r'^<(im::)?HashMap<.*> as Clone>::clone$', lambda ex, c, a: ex.strip(a[0]))]
    J = JobCtx(name, CRATES, mode=mode, extra_models=models); ex = J.ex
    f = ex.resolve_fn('build_transition_local_search_solver')
    ICOEF = (ENUMS['Coefficient'].index('Integer'), 1)
    def body():
        ex.pc_global = []; ex.inputs = {}; rec.clear()
        ex.call_fn(f, [Ref(Cell(Opaque('schedule'))), M.arc(Opaque('network'))]); return {k: list(v) for k, v in rec.items()}
    def unarc(v):
        v = ex.strip(v)
        return ex.strip(Ref(v.fields[0])) if isinstance(v, Agg) and v.ty == 'Arc' else v
    for pc, r in J.explore(body):
        if isinstance(r, Panic): J.panic(pc, r, clause='optimisation: building the transition search does not panic'); continue
        J.reached += 1
        if sorted(r) != ['tls', 'tsp'] or len(r['tls']) != 1 or len(r['tsp']) != 1: J.prove(pc, False, 'optimisation: exactly one transition search and one cycle search are built'); continue
        nb, obj, improver, between, tlimit, ilimit = r['tls'][0]
        nbv = unarc(nb)
        ok_nb = isinstance(nbv, Agg) and nbv.ty == 'TransitionNeighborhood'
        tours_ok = ok_nb and isinstance(ex.strip(nbv.fields[0]), Opaque) and ex.strip(nbv.fields[0]).what == 'tours of the schedule' and isinstance(ex.strip(nbv.fields[1]), Opaque) and ex.strip(nbv.fields[1]).what == 'tsp solver'
        J.prove(pc, bool(tours_ok), 'optimisation: the transition neighbourhood works on the schedule\'s own tours and uses the cycle search built from the same schedule')
        J.prove(pc, read_objective(ex, unarc(obj)) == [[ICOEF + ('MaintenanceViolationIndicator',)], [ICOEF + ('MaintenanceCounterIndicator',)]], 'optimisation: the transition search minimises (violation, counter) in this order')
        J.prove(pc, improver.variant == 0 and tlimit.variant == 0 and ilimit.variant == 0, 'optimisation: transition search without custom improver, time limit or iteration limit (strict minimiser up to a local optimum)')
        nb2, obj2, improver2, between2, tlimit2, ilimit2 = r['tsp'][0]
        nb2v = unarc(nb2)
        ok2 = isinstance(nb2v, Agg) and nb2v.ty == 'TransitionCycleNeighborhood' and isinstance(ex.strip(nb2v.fields[0]), Opaque) and ex.strip(nb2v.fields[0]).what == 'tours of the schedule'
        J.prove(pc, bool(ok2), 'optimisation: the cycle search reorders cycles over the schedule\'s own tours (3-opt neighbourhood)')
        J.prove(pc, read_objective(ex, unarc(obj2)) == [[ICOEF + ('MaintenanceCounterIndicator',)]], 'optimisation: the cycle search minimises the cycle\'s maintenance counter')
        J.prove(pc, improver2.variant == 0 and tlimit2.variant == 0 and ilimit2.variant == 0, 'optimisation: cycle search without custom improver, time limit or iteration limit')
        J.sample('with_options(TransitionNeighborhood(tours, tsp), (violation, counter), None, _, None, None); tsp: with_options(TransitionCycleNeighborhood(tours), (counter), None, _, None, None)')
    return J.result()

def job_seq_improve(name, k, mode='on', nlev=2):
    """rapid_solve's sequential Minimizer::improve (what LocalSearchSolver::with_options installs for `None`)"""
    S = STRUCTS; cands = {}
    def ovec(ex, tag):
        vs = [sym_int(ex, '%s_l%d' % (tag, l), 'i64', -2**40, 2**40) for l in range(nlev)]
        iv = ENUMS['BaseValue'].index('Integer')
        return Agg('ObjectiveValue', None, [VecVal([Cell(Agg('BaseValue', iv, [v])) for v in vs])]), [v.e for v in vs]
    def evs(ov, sol): return Agg('EvaluatedSolution', None, [dict(objective_value=ov, solution=sol)[f] for f in S['EvaluatedSolution']])
    def m_evaluate(ex, callee, args):
        sol = args[1]; i = sol.what
        ov, vs = ovec(ex, 'cand%s' % i); cands[i] = vs
        return evs(ov, sol)
    models = [(r'^<dyn Neighborhood<S> as Neighborhood<S>>::neighbors_of$', lambda ex, c, a: M.ListIter([Opaque(i) for i in range(k)])),
              (r'^<(std::boxed::)?Box<dyn (std::iter::)?Iterator<Item = S>.*> as Iterator>::map::<.*>$', M.m_it_map),
              (r'^Objective::<S>::evaluate$', m_evaluate),
              (r'^std::cmp::Ordering::then_with::<.*>$', lambda ex, c, a: a[0] if a[0].variant != 0 else ex.call_closure(a[1], [])),
              (r'^<&(.*) as PartialOrd>::partial_cmp$', lambda ex, c, a: ex.call('<%s as PartialOrd>::partial_cmp' % re.match(r'^<&(.*) as PartialOrd>', c).group(1), [ex.deref_val(a[0]), ex.deref_val(a[1])])),
              (r'^<&(.*) as PartialOrd>::lt$', lambda ex, c, a: ex.call('<%s as PartialOrd>::lt' % re.match(r'^<&(.*) as PartialOrd>', c).group(1), [ex.deref_val(a[0]), ex.deref_val(a[1])]))]
    J = JobCtx(name, ['rapid_solve'], mode=mode, extra_models=models); ex = J.ex
    f = [v[0] for kk, v in ex.fns.items() if 'local_improver/minimizer.rs' in kk and kk.endswith('>::improve')]
    if len(f) != 1: raise Unsupported('Minimizer::improve: %d candidates' % len(f))
    def body():
        ex.pc_global = []; ex.inputs = {}; cands.clear()
        cur_ov, cur = ovec(ex, 'cur')
        mz = Agg('Minimizer', None, [dict(neighborhood=M.arc(Opaque('nb')), objective=M.arc(Opaque('obj')))[x] for x in S['Minimizer']])
        r = ex.call_fn(f[0], [Ref(Cell(mz)), Ref(Cell(evs(cur_ov, Opaque('current'))))])
        return r, cur, dict(cands)
    for pc, r in J.explore(body):
        if isinstance(r, Panic): J.panic(pc, r, clause='optimisation: the sequential improver does not panic'); continue
        res, cur, cs = r; J.reached += 1
        if res.variant == 1:
            chosen = res.fields[0].fields[S['EvaluatedSolution'].index('solution')].what
            J.prove(pc, lex_lt(cs[chosen], cur), 'optimisation: an accepted step of the cycle search is strictly better in the lexicographic order of the levels')
            J.prove(pc, z3.And(*[lex_le(cs[chosen], v) for v in cs.values()]), 'optimisation: the accepted candidate of the cycle search is a best neighbour')
            J.covers.add('sequential step accepted')
        else:
            J.prove(pc, z3.And(*[z3.Not(lex_lt(v, cur)) for v in cs.values()]) if cs else True, 'optimisation: the cycle search stops only when no neighbour is strictly better')
            J.covers.add('sequential fixpoint')
        J.sample('%d candidates -> %s' % (k, 'Some' if res.variant == 1 else 'None'))
    return J.result()
