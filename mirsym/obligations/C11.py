"""C11 — every local-search candidate is a valid schedule with truthful objective; generating it neither panics nor
changes the base schedule.  The four Swap::apply bodies (solver crate, real MIR) are executed on base schedules produced
by real modification scripts; every candidate (Ok result) is checked against the structural invariants (C10's reference
model) and the from-scratch recomputation of all cached figures (C09's reference model)."""
from .schedops import *
from . import schedops as SO
from . import C10 as _C10
PROPERTY = 'C11'
MIR = SO.MIR + [('solver', 'on')] + [(c, 'off') for c in ('rapid_time', 'model', 'solution', 'solver')]
ASSUMPTIONS = _C10.ASSUMPTIONS + ['candidates are generated with the arguments RSSchedParallelNeighborhood uses (maintenance slot x vehicle; provider segment x receiver incl. the whole-tour segment ending at the end depot; own-type trip x vehicle; tour node x vehicle); the rayon iteration over them is not executed',
                                  'base schedules are produced by explicit scripts of real modifications (not by arbitrary walks)']
BOUNDS = {'quick': '5 base schedules (one vehicle; two vehicles [lean instance: fixed depot capacity, no formation limits]; vehicle + maintenance vehicle; dummy + vehicle; two-trip dummy + vehicle [lean instance, path exchanges with the dummy as provider only]) on the 1-type instance of C10; every candidate of each, except that the maintenance-spawning candidates are taken from the first and third base only',
          'thorough': '8 base schedules incl. three vehicles and the two-type instance'}
OUTSIDE = 'arbitrary walks through the neighbourhood (only the listed base schedules); rayon\'s parallel scheduling (the enumeration is executed with sequential iterator models)'
REQUIRED_COVERS = {'quick': ['op:swap_path_exchange:ok', 'op:swap_spawn_maint:ok', 'op:swap_hitch:ok', 'op:swap_remove_single:ok', 'generated:swap_path_exchange', 'generated:swap_spawn_maint', 'generated:swap_hitch', 'generated:swap_remove_single']}
REQUIRED_COVERS['thorough'] = REQUIRED_COVERS['quick']
from . import C11nb
from .C11nb import job_neighborhood
def jobs(tier, seed): return SO.swap_jobs(tier, seed, ['C11']) + C11nb.jobs(tier)

def confirm(c):
    if c.get('job_func') == 'job_neighborhood': return C11nb.confirm(c)
    return SO.confirm(c)
