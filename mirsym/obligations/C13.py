"""C13 — schedule modifications change exactly what they document."""
from .schedops import *
from ..core import *
from .. import models as M, netbuild as NB
from .tourops import F
from . import schedops as SO
from . import C10 as _C10
PROPERTY = 'C13'
ASSUMPTIONS = _C10.ASSUMPTIONS + ['op-specific effects and frame conditions are evaluated on the concrete structure of each symbolic path; "input schedule untouched" compares the input value before and after the call (persistent maps are modelled as copy-on-write values)']
BOUNDS = _C10.BOUNDS; OUTSIDE = _C10.OUTSIDE; REQUIRED_COVERS = _C10.REQUIRED_COVERS
def jobs(tier, seed):
    return SO.all_jobs(tier, seed, ['C13']) + [dict(name='train formation order, %d vehicles' % n, func='job_formation', kwargs=dict(n=n)) for n in range(0, 4 if tier == 'quick' else 6)]

def job_formation(name, n):
    """TrainFormation::replace / remove / add_at_tail executed from MIR on formations of n vehicles (ids concrete, positions exhaustive)"""
    from ..harness import JobCtx
    J = JobCtx(name, CRATES); ex = J.ex
    vt = M.arc(Opaque('vehicle type'))
    def veh(i): return NB.S('Vehicle', idx=NB.vehidx(i), vehicle_type=vt)
    def ids(tf): return [conc(F(c.v, 'Vehicle', 'idx').fields[0]) for c in F(tf, 'TrainFormation', 'formation').cells]
    def form(): return NB.S('TrainFormation', formation=VecVal([Cell(veh(i)) for i in range(n)]))
    base = list(range(n))
    cases = [('add_at_tail', None)] + [('remove', i) for i in range(n + 1)] + [('replace', i) for i in range(n + 1)]
    for what, i in cases:
        def body():
            ex.pc_global = []; ex.inputs = {}
            tf = form()
            if what == 'add_at_tail': return ex.call('TrainFormation::add_at_tail', [Ref(Cell(tf)), veh(99)]), ids(tf)
            if what == 'remove': return ex.call('TrainFormation::remove', [Ref(Cell(tf)), NB.vehidx(i)]), ids(tf)
            return ex.call('TrainFormation::replace', [Ref(Cell(tf)), NB.vehidx(i), veh(99)]), ids(tf)
        for pc, r in J.explore(body):
            if isinstance(r, Panic): J.panic(pc, r, clause='effect: train formation operations do not panic'); continue
            res, inp = r; J.reached += 1
            def mk(exp, what=what, i=i):
                # native replay through the injected accessor (TrainFormation's editing functions are crate-private)
                def f(m):
                    net = NB.build(ex, NB.Spec(nloc=2, trips=[dict(vt=0)], maint=0))
                    return dict(signature='train formation %s' % what, what='TrainFormation::%s on a formation of %d vehicles (position %s) does not give %s' % (what, n, i, exp),
                                scenario=dict(instance=NB.to_json(net, m), ops=[dict(op='formation_op', n=n, what=what, i=i or 0)]), expect=[exp], formation=True)
                return f
            vid = lambda xs: dict(ok=['veh_%d' % x for x in xs])
            J.prove(pc, inp == base, 'effect: the input formation stays untouched')
            if what == 'add_at_tail': J.prove(pc, ids(res) == base + [99], 'effect: additions go to the tail of the formation', mk(vid(base + [99])))
            elif what == 'remove':
                if i < n: J.prove(pc, res.variant == 0 and ids(res.fields[0]) == [x for x in base if x != i], 'effect: removals keep the order of the formation', mk(vid([x for x in base if x != i])))
                else: J.prove(pc, res.variant == 1, 'effect: removing a vehicle that is not in the formation is refused')
            else:
                if i < n: J.prove(pc, res.variant == 0 and ids(res.fields[0]) == [99 if x == i else x for x in base], 'effect: a replacing vehicle takes the replaced one\'s position', mk(vid([99 if x == i else x for x in base])))
                else: J.prove(pc, res.variant == 1, 'effect: replacing a vehicle that is not in the formation is refused')
            J.sample('%s(%s) on a formation of %d' % (what, i, n))
    return J.result()

def confirm(c):
    if c.get('formation'):
        from .. import replay
        out = []
        for prof in ('dev', 'release'):
            obs = replay.run(c['scenario'], prof)
            out.append('%s: native %s, documented %s' % (prof, obs, c['expect']))
            if obs == c['expect']: return False, '; '.join(out)
        return True, '; '.join(out)
    return SO.confirm(c)
