"""C13 — schedule modifications change exactly what they document."""
from .schedops import *
from . import schedops as SO
from . import C10 as _C10
PROPERTY = 'C13'
ASSUMPTIONS = _C10.ASSUMPTIONS + ['op-specific effects and frame conditions are evaluated on the concrete structure of each symbolic path; "input schedule untouched" compares the input value before and after the call (persistent maps are modelled as copy-on-write values)']
BOUNDS = _C10.BOUNDS; OUTSIDE = _C10.OUTSIDE; REQUIRED_COVERS = _C10.REQUIRED_COVERS
def jobs(tier, seed): return SO.all_jobs(tier, seed, ['C13'])
