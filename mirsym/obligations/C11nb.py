"""C11 — which candidates the neighbourhood generates.

The swap jobs of C11 apply the four Swap::apply bodies to argument sets computed by schedops.swap_menu ("the arguments the
neighbourhood uses").  This job closes that assumption: RSSchedParallelNeighborhood::neighbors_of (and its four iterator
functions, `segments`, the overhead / length filters) is executed from the solver crate's MIR on the same base schedules,
with production parameters (segment limit 3 h, overhead threshold 10 min), and with the four `apply` bodies replaced by
recorders that answer Err (so the enumeration runs to its end).  Obligations: generating never panics; every argument
tuple the real code hands to `apply` is in swap_menu's set (otherwise the run is *inconclusive*: a coverage gap of the swap jobs,
not a property clause); where the enumeration offers a maintenance slot that may be full - the case the swap jobs assume away -
the REAL SpawnVehicleForMaintenance::apply is executed on the spot: it must not panic and an Ok result must respect the tracks."""
import z3
from ..core import *
from .. import models as M, netbuild as NB
from ..harness import JobCtx
from . import schedops as SO
from .schedops import F, mk_spec, read_schedule, apply_op, unpack, swap_menu, vkey, LISTED_MODELS

CRATES = SO.CRATES + ['solver']

def _seq(ex, v): return M.to_iter(ex, v)
def m_par_identity(ex, callee, args): return _seq(ex, args[0])
RAYON = [
    (r'^<.* as (rayon::iter::)?IntoParallelIterator>::into_par_iter$', m_par_identity),
    (r'^<.* as (rayon::iter::)?ParallelIterator>::map::<.*>$', M.m_it_map),
    (r'^<.* as (rayon::iter::)?ParallelIterator>::filter::<.*>$', M.m_it_filter),
    (r'^<.* as (rayon::iter::)?ParallelIterator>::filter_map::<.*>$', lambda ex, c, a: M.FilterMapIt(M.to_iter(ex, a[0]), a[1])),
    (r'^<.* as (rayon::iter::)?ParallelIterator>::flat_map::<.*>$', lambda ex, c, a: M.FlatMapIt(M.to_iter(ex, a[0]), a[1])),
    (r'^<.* as (rayon::iter::)?ParallelIterator>::chain::<.*>$', M.m_it_chain),
    (r'^<.* as (rayon::iter::)?ParallelIterator>::collect::<.*>$', M.m_it_collect),
]

def jobs(tier):
    return [dict(name='neighbourhood arguments on base %d' % k, func='job_neighborhood', kwargs=dict(tier=tier, variant=v, prefix=p)) for k, (v, p) in enumerate(SO.SWAP_BASES if tier == 'thorough' else SO.SWAP_BASES[:6])]

def job_neighborhood(name, tier, variant, prefix, mode='on'):
    rec = []
    ctx = {}; over = []
    def recorder(kind):
        def m(ex, callee, args):
            sw = ex.strip(args[0]); rec.append((kind, sw))
            if kind == 'swap_spawn_maint' and 'net' in ctx:
                # the swap jobs assume that a slot is only offered while a track is free.  Where the enumeration offers a slot that
                # may be full, that assumption does not cover the call: execute the REAL apply here (a panic propagates as a
                # violation of "never panics"; an Ok result must still respect the track limit)
                net = ctx['net']; slot = conc(F(sw, 'SpawnVehicleForMaintenance', 'maintenance_slot').fields[0])
                nform = len(ctx['st']['formations'].get(slot, []))
                if not ex.decide(Z(nform) < net.info[slot]['tracks']):
                    ex.covers.add('full slot offered')
                    r = ex.call_fn(real_spawn_apply, [args[0], args[1]])
                    if r.variant == 0:
                        after = read_schedule(ex, r.fields[0])
                        over.append(Z(len(after['formations'].get(slot, []))) <= net.info[slot]['tracks'])
            return err(StrVal('recorded'))
        return m
    models = RAYON + [(r'^<PathExchange as Swap>::apply$', recorder('swap_path_exchange')), (r'^<SpawnVehicleForMaintenance as Swap>::apply$', recorder('swap_spawn_maint')),
                      (r'^<AddTripForHitchHiking as Swap>::apply$', recorder('swap_hitch')), (r'^<RemoveSingleNode as Swap>::apply$', recorder('swap_remove_single'))] + LISTED_MODELS
    J = JobCtx(name, CRATES, mode=mode, extra_models=models); ex = J.ex
    real = [v[0] for k, v in ex.fns.items() if 'swaps/spawn_vehicle_for_maintenance.rs' in k and k.endswith('>::apply')]
    if len(real) != 1: raise Unsupported('SpawnVehicleForMaintenance::apply: %d candidates' % len(real))
    real_spawn_apply = real[0]
    nb_fn = [v[0] for k, v in ex.fns.items() if 'local_search/neighborhood/mod.rs' in k and k.endswith('>::neighbors_of')]
    if len(nb_fn) != 1: raise Unsupported('RSSchedParallelNeighborhood::neighbors_of: %d candidates' % len(nb_fn))
    def node_of(net, v): return conc(v.fields[0])
    def body():
        ex.pc_global = []; ex.inputs = {}; del rec[:]; del over[:]; ctx.pop('st', None)
        net = NB.build(ex, mk_spec(tier, variant)); ctx['net'] = net
        s = ex.call('Schedule::empty', [net.arc]); st = read_schedule(ex, s)
        for op in prefix:
            r = apply_op(ex, net, s, tuple(op)); ns, extra = unpack(r)
            if ns is None: raise PathAbort()
            s = ns; st = read_schedule(ex, s)
        ctx['st'] = st
        nb = NB.S('RSSchedParallelNeighborhood', segment_length_limit=some(NB.dur(3 * 3600)), overhead_threshold=some(NB.dur(600)), network=net.arc)
        swi = NB.S('ScheduleWithInfo', schedule=s, last_swap_info=Agg('SwapInfo', ENUMS['SwapInfo'].index('NoSwap'), []), print_text=StrVal('base'))
        it = ex.call_fn(nb_fn[0], [Ref(Cell(nb)), Ref(Cell(swi))])
        it = M.to_iter(ex, it); n = 0
        while it.next(ex) is not None: n += 1
        return net, st, list(rec), n, list(over)
    def scenario(net, m):
        ops = [dict(op='schedule_empty', name='S0')]
        for i, op in enumerate(prefix): ops.append(SO.replay_op(net, tuple(op), 'S%d' % i, 'S%d' % (i + 1)))
        ops.append(dict(op='neighbors', schedule='S%d' % len(prefix)))
        return dict(instance=NB.to_json(net, m), ops=ops)
    for pc, r in J.explore(body, max_paths=20000):
        if isinstance(r, Panic):
            def mkp(m, msg=r.msg, net=ctx.get('net')):
                if net is None: return None
                return dict(signature='panic while generating the neighbourhood: %s' % msg[:80], what='RSSchedParallelNeighborhood::neighbors_of panics (%s)' % msg[:160], scenario=scenario(net, m), expect=dict(panic=True), neighbourhood=True)
            J.panic(pc, r, clause='candidate: generating the neighbourhood does not panic', mk_cex=mkp); continue
        net, st, got, n, over_ = r; J.reached += 1
        menu = set(swap_menu(net, st)); bad = []; free = []
        for kind, sw in got:
            if kind == 'swap_path_exchange':
                seg = F(sw, 'PathExchange', 'segment'); t = (kind, node_of(net, F(seg, 'Segment', 'start')), node_of(net, F(seg, 'Segment', 'end')), vkey(F(sw, 'PathExchange', 'provider')), vkey(F(sw, 'PathExchange', 'receiver')))
                if t[3] == t[4]: bad.append(('provider = receiver', t))
            elif kind == 'swap_spawn_maint':
                t = (kind, node_of(net, F(sw, 'SpawnVehicleForMaintenance', 'maintenance_slot')), vkey(F(sw, 'SpawnVehicleForMaintenance', 'vehicle')))
                free.append(Z(len(st['formations'].get(t[1], []))) < net.info[t[1]]['tracks'])
            elif kind == 'swap_hitch': t = (kind, node_of(net, F(sw, 'AddTripForHitchHiking', 'node')), vkey(F(sw, 'AddTripForHitchHiking', 'vehicle')))
            else: t = (kind, node_of(net, F(sw, 'RemoveSingleNode', 'node')), vkey(F(sw, 'RemoveSingleNode', 'vehicle')))
            if t not in menu: bad.append(('not in the argument sets of the swap jobs', t))
            J.covers.add('generated:' + kind)
        # coverage of my own swap jobs, not a clause of the property: a tuple outside their argument sets makes the run inconclusive
        if bad: J.inconclusive.append('%s: the neighbourhood hands a swap an argument tuple that no swap job covers: %s' % (name, bad[:2]))
        else: J.obligations += 1; J.discharged += 1
        J.prove(pc, z_and(*over_) if over_ else True, 'candidate: a maintenance candidate never exceeds the slot\'s tracks (also when the neighbourhood offers a full slot)')
        J.prove(pc, n == 0, 'candidate: refused swaps (Err) yield no candidate')
        J.sample('neighbors_of on base %s: %d swaps constructed %s' % ([o[0] for o in prefix], len(got), sorted(set(k for k, _ in got))))
    return J.result()

def confirm(c):
    """panics: replayed natively (real neighbourhood, production parameters); argument-set clauses concern values internal to the
    enumeration (no native observable): re-decided on the other MIR flavour"""
    from .. import replay
    if c.get('expect', {}).get('panic'):
        out = []
        for prof in ('dev', 'release'):
            obs = replay.run(c['scenario'], prof)
            hit = [o for o in obs if isinstance(o, dict) and 'panic' in o]
            out.append('%s: %s' % (prof, ('native panic: ' + hit[0]['panic'][:160]) if hit else 'no panic'))
            if not hit: return False, '; '.join(out)
        return True, '; '.join(out)
    from ..harness import confirm_on_other_flavour
    return confirm_on_other_flavour('mirsym.obligations.C11', c['job_func'], c.get('job_kwargs', {}), c['clause'])
