"""C12 — tour edits follow the insert/remove reference semantics."""
from .tourops import *
from . import tourops as TO
PROPERTY = 'C12'
ASSUMPTIONS = ['network value built by netbuild (equal to Network::new by C17)', 'activity durations >= 1 s (documented validity)',
               'pre-states are produced by the real constructors Tour::new / Tour::new_dummy / Path::new executed symbolically',
               'segments consist of non-depot nodes (Segment documentation)']
BOUNDS = {'quick': 'tours with <= 2 activities (service/maintenance, dummy and real, real or overflow depots; removals also on real and dummy tours with 3 activities), paths with <= 2 nodes with/without leading/trailing depot, tour+path <= 3 activities, 2 locations, all times/locations/dead-heads/shunting symbolic',
          'thorough': 'tours with <= 4 activities, paths <= 2 nodes, tour+path <= 5 activities, times over a day'}
OUTSIDE = 'larger tours/paths; the random half of the quantifier (sampling is not this technique)'
REQUIRED_COVERS = {'quick': ['insert: conflict removed', 'remove: accepted', 'remove: refused'], 'thorough': ['insert: conflict removed', 'remove: accepted', 'remove: refused']}
def jobs(tier, seed): return TO.all_jobs(tier, seed, ['C12'])
