"""C05 — cyclically repeatable: after reassign_end_depots_consistent_with_transitions every vehicle ends where its successor starts."""
from .schedops import *
from . import schedops as SO
from . import C10 as _C10
PROPERTY = 'C05'
ASSUMPTIONS = _C10.ASSUMPTIONS + ['the cycles used are the ones stored in the schedule (that the server stores the optimiser\'s cycles is C16); that the cycles partition the vehicles is C15/C10']
BOUNDS = _C10.BOUNDS; OUTSIDE = _C10.OUTSIDE
REQUIRED_COVERS = {'quick': ['op:reassign_end_depots_consistent_with_transitions:ok'], 'thorough': ['op:reassign_end_depots_consistent_with_transitions:ok']}
def jobs(tier, seed): return SO.all_jobs(tier, seed, ['C05'])
