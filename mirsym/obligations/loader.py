"""C17, loader part — model/src/json_serialisation/mod.rs executed from MIR on an abstract, already-deserialised JsonInput.

The JsonInput value has a concrete *shape* (how many types, locations, routes, segments ..., which id refers to which)
and symbolic *attributes* (all numbers, all optional fields' presence, all times).  create_locations, create_vehicle_types,
create_config and create_network (with create_service_trips / create_depots / create_maintenance_slots inside) run from the
real MIR; `Network::new` is intercepted and its six arguments are compared, field by field, with a reference written
directly from the README's description of the input format (the construction inside Network::new is the subject of the
network_new jobs).  Shapes are chosen so that positional shortcuts are wrong: route segments listed in the reverse of their
order, departure segments referring to them crosswise, the dead-head index list a permutation of the location list, the
second vehicle type used by the first route, depots listed at the last location first."""
import z3, itertools, json
from ..core import *
from .. import models as M, netbuild as NB, replay
from ..harness import JobCtx

CRATES = ['rapid_time', 'model']
MAX_DISTANCE_NAME = 'MAX_DISTANCE'

# ------------------------------------------------------------------------------------------------ shapes
def shape(variant, tier):
    """concrete structure of the instance; everything numeric is symbolic"""
    sh = dict(types=['vtA', 'vtB'], locs=['locA', 'locB'], dh_indices=['locB', 'locA'],
              routes=[dict(id='r0', vt='vtB', segs=[dict(id='r0s1', order=1, o='locB', d='locA'), dict(id='r0s0', order=0, o='locA', d='locB')]),
                      dict(id='r1', vt='vtA', segs=[dict(id='r1s0', order=0, o='locB', d='locB')])],
              departures=[dict(id='d0', route='r0', segs=[dict(id='t0', rs='r0s0'), dict(id='t1', rs='r0s1')]),
                          dict(id='d1', route='r1', segs=[dict(id='t2', rs='r1s0')])],
              maint=[dict(id='m0', loc='locB')], depots=None, big=(0, 1))
    if variant == 'default-depots': pass
    elif variant == 'given-depots':
        sh['depots'] = [dict(id='depB', loc='locB', allowed=[('vtB', 'sym'), ('vtA', 'none')]), dict(id='depA', loc='locA', allowed=[('vtA', 'sym')])]
    elif variant == 'no-maintenance':
        sh['maint'] = None
        sh['depots'] = [dict(id='depA', loc='locA', allowed=[('vtA', 'none'), ('vtB', 'sym')])]
        sh['departures'] = [dict(id='d0', route='r0', segs=[dict(id='t0', rs='r0s1')]), dict(id='d1', route='r1', segs=[dict(id='t2', rs='r1s0')]), dict(id='d2', route='r0', segs=[dict(id='t3', rs='r0s0')])]
    elif variant == 'three-locations':
        sh['locs'] = ['locA', 'locB', 'locC']; sh['dh_indices'] = ['locC', 'locA', 'locB']
        sh['routes'][1]['segs'][0].update(o='locC', d='locA')
        sh['maint'] = [dict(id='m0', loc='locC')]; sh['big'] = (2, 0)
    else: raise Unsupported('loader shape %s' % variant)
    return sh

VARIANTS = {'quick': ['default-depots', 'given-depots', 'no-maintenance', 'three-locations'], 'thorough': ['default-depots', 'given-depots', 'no-maintenance', 'three-locations']}

def J_(name, **kw): return NB.S('Json' + name, **kw)

class Inst: pass

def build_input(ex, sh, tier):
    """abstract JsonInput + the bookkeeping the reference needs"""
    I = Inst(); I.sh = sh; I.times = {}
    big = 2**32 - 1
    tmax = 4096 if tier == 'quick' else 86400 - 4096
    def sym(name, ty, hi, lo=0): return sym_int(ex, name, ty, lo, hi)
    def opt(name, val):
        o, p = sym_option(ex, name, val); return o, p
    def time_token(name, hi):
        s = sym('time_' + name, 'u32', hi); I.times['@' + name] = s.e; return StrVal('@' + name)
    # vehicle types
    I.types = []; vts = []
    for i, tid in enumerate(sh['types']):
        # capacity and seats are concrete and pairwise distinct (the loader divides by them; division by a symbolic value is not encoded)
        cap = bv((5, 11, 13)[i], 'u64'); seats = bv((7, 3, 2)[i], 'u64'); lim = sym('limit_' + tid, 'u64', big)
        lo_, lp = opt('limit_' + tid, lim)
        vts.append(J_('VehicleType', id=StrVal(tid), capacity=cap, seats=seats, maximal_formation_count=lo_))
        I.types.append(dict(id=tid, cap=cap.e, seats=seats.e, limit=(lp, lim.e)))
    # locations
    I.locs = []; locs = []
    for i, lid in enumerate(sh['locs']):
        dl = sym('daylimit_' + lid, 'u64', big); do, dp = opt('daylimit_' + lid, dl)
        locs.append(J_('Location', id=StrVal(lid), day_limit=do)); I.locs.append(dict(id=lid, day_limit=(dp, dl.e)))
    # depots
    I.depots = None
    if sh['depots'] is None: depots = NONE()
    else:
        I.depots = []; ds = []
        for d in sh['depots']:
            cap = sym('cap_' + d['id'], 'u64', big); al = []; ai = []
            for tid, kind in d['allowed']:
                if kind == 'sym':
                    c = sym('cap_%s_%s' % (d['id'], tid), 'u64', big); co, cp = opt('cap_%s_%s' % (d['id'], tid), c); ai.append((tid, cp, c.e))
                else: co = NONE(); ai.append((tid, z3.BoolVal(False), z3.IntVal(0)))
                al.append(J_('TypeCapacities', vehicle_type=StrVal(tid), capacity=co))
            ds.append(J_('Depot', id=StrVal(d['id']), location=StrVal(d['loc']), capacity=cap, allowed_types=VecVal([Cell(a) for a in al])))
            I.depots.append(dict(id=d['id'], loc=d['loc'], cap=cap.e, allowed=ai))
        depots = some(VecVal([Cell(d) for d in ds]))
    # routes
    I.routes = {}; routes = []
    for r in sh['routes']:
        segs = []; I.routes[r['id']] = dict(vt=r['vt'], segs={})
        for s in r['segs']:
            dist = sym('dist_' + s['id'], 'u64', 2**40); dur = sym('dur_' + s['id'], 'u64', 1024 if tier == 'quick' else 4095, lo=1 if s['id'] == 'r1s0' else 0)   # one positive duration keeps the horizon >= 1 day (zero durations stay covered by the other segments)
            lim = sym('limit_' + s['id'], 'u64', big); lo_, lp = opt('limit_' + s['id'], lim)
            segs.append(J_('RouteSegment', id=StrVal(s['id']), order=bv(s['order'], 'u64'), origin=StrVal(s['o']), destination=StrVal(s['d']), distance=dist, duration=dur, maximal_formation_count=lo_))
            I.routes[r['id']]['segs'][s['id']] = dict(o=s['o'], d=s['d'], dist=dist.e, dur=dur.e, limit=(lp, lim.e), order=s['order'])
        routes.append(J_('Route', id=StrVal(r['id']), vehicle_type=StrVal(r['vt']), segments=VecVal([Cell(s) for s in segs])))
    # departures
    I.departures = []; deps = []
    for d in sh['departures']:
        segs = []
        for s in d['segs']:
            pax = sym('pax_' + s['id'], 'u64', 2**30); seated = sym('seated_' + s['id'], 'u64', 2**30)
            tok = time_token(s['id'], tmax - 1)
            segs.append(J_('DepartureSegment', id=StrVal(s['id']), route_segment=StrVal(s['rs']), departure=tok, passengers=pax, seated=seated))
            I.departures.append(dict(id=s['id'], route=d['route'], rs=s['rs'], tok=tok.text, pax=pax.e, seated=seated.e))
        deps.append(J_('Departures', id=StrVal(d['id']), route=StrVal(d['route']), segments=VecVal([Cell(s) for s in segs])))
    # maintenance slots
    I.maint = None
    if sh['maint'] is None: maint = NONE()
    else:
        I.maint = []; ms = []
        for m in sh['maint']:
            ts = time_token(m['id'] + '_start', tmax - 1); te = time_token(m['id'] + '_end', tmax + 1024)
            ex.pc_global.append(I.times[ts.text] <= I.times[te.text])
            tc = sym('tracks_' + m['id'], 'u64', big)
            ms.append(J_('MaintenanceSlots', id=StrVal(m['id']), location=StrVal(m['loc']), start=ts, end=te, track_count=tc))
            I.maint.append(dict(id=m['id'], loc=m['loc'], start=ts.text, end=te.text, tracks=tc.e))
        maint = some(VecVal([Cell(m) for m in ms]))
    # dead-head matrices: rows/columns follow dh_indices, NOT the location list; one entry of each matrix is unbounded (clamps), the others small
    n = len(sh['dh_indices']); I.dur = {}; I.dist = {}
    durs = []; dists = []
    for i in range(n):
        rd = []; rm = []
        for j in range(n):
            isbig = (i, j) == sh['big']
            du = sym('dh_dur_%d_%d' % (i, j), 'u64', 2**40 if isbig else 4096); di = sym('dh_dist_%d_%d' % (i, j), 'u64', 2**62 if isbig else min(2**19, max_distance_value(None) - 1))   # only the 'big' entry can exceed MAX_DISTANCE
            rd.append(Cell(du)); rm.append(Cell(di))
            I.dur[(sh['dh_indices'][i], sh['dh_indices'][j])] = du.e; I.dist[(sh['dh_indices'][i], sh['dh_indices'][j])] = di.e
        durs.append(Cell(VecVal(rd))); dists.append(Cell(VecVal(rm)))
    dh = J_('DeadHeadTrips', indices=VecVal([Cell(StrVal(x)) for x in sh['dh_indices']]), durations=VecVal(durs), distances=VecVal(dists))
    # parameters
    P = {}
    fb = sym_bool(ex, 'forbid'); fbo, fbp = opt('forbid', fb); P['forbid'] = (fbp, fb.e)
    dlt = sym('day_limit_threshold', 'u64', 2**40); dlto, dltp = opt('day_limit_threshold', dlt); P['dlt'] = (dltp, dlt.e)
    shmin = sym('sh_min', 'u64', 2**40); shdht = sym('sh_dht', 'u64', 2**40); P['shmin'] = shmin.e; P['shdht'] = shdht.e
    md = sym('maint_maxdist', 'u64', 2**62); mo, mp = opt('maintenance', J_('Maintenance', maximal_distance=md)); P['maxdist'] = (mp, md.e)
    cs = {k: sym('cost_' + k, 'u64', 2**62) for k in ('staff', 'service_trip', 'maintenance', 'dead_head_trip', 'idle')}
    cmo, cmp_ = opt('cost_maintenance', cs['maintenance']); P['costs'] = {k: v.e for k, v in cs.items()}; P['cost_maint_present'] = cmp_
    params = J_('Parameters', forbid_dead_head_trips=fbo, day_limit_threshold=dlto, shunting=J_('Shunting', minimal_duration=shmin, dead_head_trip_duration=shdht),
                maintenance=mo, costs=J_('Costs', staff=cs['staff'], service_trip=cs['service_trip'], maintenance=cmo, dead_head_trip=cs['dead_head_trip'], idle=cs['idle']))
    I.params = P
    I.value = J_('JsonInput', vehicle_types=VecVal([Cell(v) for v in vts]), locations=VecVal([Cell(l) for l in locs]), depots=depots, routes=VecVal([Cell(r) for r in routes]),
                 departures=VecVal([Cell(d) for d in deps]), maintenance_slots=maint, dead_head_trips=dh, parameters=params)
    return I

# ------------------------------------------------------------------------------------------------ instance JSON of a model (README format)
def to_json(I, m):
    def val(e):
        if isinstance(e, (int, bool)): return e
        v = m.eval(e, model_completion=True)
        if z3.is_int_value(v): return v.as_long()
        if z3.is_true(v): return True
        if z3.is_false(v): return False
        raise RuntimeError('non-concrete %s' % e)
    def iso(sec): return '0400-01-%02dT%02d:%02d:%02d' % (1 + sec // 86400, (sec % 86400) // 3600, (sec % 3600) // 60, sec % 60)
    def optput(o, key, pe):
        if val(pe[0]): o[key] = val(pe[1])
    sh = I.sh; js = {}
    js['vehicleTypes'] = []
    for t in I.types:
        o = dict(id=t['id'], capacity=val(t['cap']), seats=val(t['seats'])); optput(o, 'maximalFormationCount', t['limit']); js['vehicleTypes'].append(o)
    js['locations'] = []
    for l in I.locs:
        o = dict(id=l['id']); optput(o, 'dayLimit', l['day_limit']); js['locations'].append(o)
    if I.depots is not None:
        js['depots'] = []
        for d in I.depots:
            al = []
            for tid, cp, c in d['allowed']:
                o = dict(vehicleType=tid); optput(o, 'capacity', (cp, c)); al.append(o)
            js['depots'].append(dict(id=d['id'], location=d['loc'], capacity=val(d['cap']), allowedTypes=al))
    js['routes'] = []
    for r in sh['routes']:
        segs = []
        for s in r['segs']:
            S_ = I.routes[r['id']]['segs'][s['id']]
            o = dict(id=s['id'], order=s['order'], origin=s['o'], destination=s['d'], distance=val(S_['dist']), duration=val(S_['dur'])); optput(o, 'maximalFormationCount', S_['limit']); segs.append(o)
        js['routes'].append(dict(id=r['id'], vehicleType=r['vt'], segments=segs))
    js['departures'] = []
    byid = {d['id']: d for d in I.departures}
    for d in sh['departures']:
        js['departures'].append(dict(id=d['id'], route=d['route'], segments=[dict(id=s['id'], routeSegment=s['rs'], departure=iso(val(I.times[byid[s['id']]['tok']])),
                                                                             passengers=val(byid[s['id']]['pax']), seated=val(byid[s['id']]['seated'])) for s in d['segs']]))
    if I.maint is not None:
        js['maintenanceSlots'] = [dict(id=x['id'], location=x['loc'], start=iso(val(I.times[x['start']])), end=iso(val(I.times[x['end']])), trackCount=val(x['tracks'])) for x in I.maint]
    ix = sh['dh_indices']
    js['deadHeadTrips'] = dict(indices=list(ix), durations=[[val(I.dur[(a, b)]) for b in ix] for a in ix], distances=[[val(I.dist[(a, b)]) for b in ix] for a in ix])
    P = I.params
    par = dict(shunting=dict(minimalDuration=val(P['shmin']), deadHeadTripDuration=val(P['shdht'])),
               costs=dict(staff=val(P['costs']['staff']), serviceTrip=val(P['costs']['service_trip']), deadHeadTrip=val(P['costs']['dead_head_trip']), idle=val(P['costs']['idle'])))
    if val(P['cost_maint_present']): par['costs']['maintenance'] = val(P['costs']['maintenance'])
    if val(P['forbid'][0]): par['forbidDeadHeadTrips'] = val(P['forbid'][1])
    if val(P['dlt'][0]): par['dayLimitThreshold'] = val(P['dlt'][1])
    if val(P['maxdist'][0]): par['maintenance'] = dict(maximalDistance=val(P['maxdist'][1]))
    js['parameters'] = par
    return js

# ------------------------------------------------------------------------------------------------ reference (from the README, not from the code)
def zmin(a, b): return z3.If(a <= b, a, b)
def zmax(a, b): return z3.If(a >= b, a, b)
def ceil_div(a, b): return (a + b - 1) / b

class Ref_:
    """expected facts as z3 terms / python structure"""
    def __init__(self, I, max_distance, planning=None, loc_idx=None, type_idx=None):
        sh = I.sh; self.I = I
        # ids -> indices as the loader itself assigned them (only injectivity is required of that assignment, not input order)
        self.loc_idx = loc_idx or {l: i for i, l in enumerate(sh['locs'])}; self.type_idx = type_idx or {t: i for i, t in enumerate(sh['types'])}
        self.trips = []          # in the order of the departures and their segments
        starts = []; ends = []
        for d in I.departures:
            R = I.routes[d['route']]; S_ = R['segs'][d['rs']]
            dep = I.times[d['tok']]
            t = dict(id=d['id'], vt=self.type_idx[R['vt']], o=self.loc_idx[S_['o']], d=self.loc_idx[S_['d']], dep=dep, arr=dep + S_['dur'], dist=S_['dist'],
                     pax=z3.If(d['pax'] == 0, 1, d['pax']), seated=d['seated'], limit=S_['limit'])
            self.trips.append(t); starts.append(dep); ends.append(t['arr'])
        self.maint = []
        for m in (I.maint or []):
            x = dict(id=m['id'], loc=self.loc_idx[m['loc']], start=I.times[m['start']], end=I.times[m['end']], tracks=m['tracks'])
            self.maint.append(x); starts.append(x['start']); ends.append(x['end'])
        lo = starts[0]; hi = ends[0]
        for s in starts[1:]: lo = zmin(lo, s)
        for e in ends[1:]: hi = zmax(hi, e)
        self.span = hi - lo
        self.planning = planning if planning is not None else ceil_div(hi - lo, 86400) * 86400
        self.tt = {}; self.dd = {}
        for (a, b), du in I.dur.items():
            self.tt[(self.loc_idx[a], self.loc_idx[b])] = zmin(du, self.planning)
            self.dd[(self.loc_idx[a], self.loc_idx[b])] = zmin(I.dist[(a, b)], max_distance)
        # vehicles the covering may need: per trip min(required, limit) with required = max(ceil(p/cap), ceil(s/seats))
        need = z3.IntVal(0)
        tinv = {v: k for k, v in self.type_idx.items()}; tinfo = {x['id']: x for x in I.types}
        for t in self.trips:
            T = tinfo[tinv[t['vt']]]
            req = zmax(ceil_div(t['pax'], T['cap']), ceil_div(t['seated'], T['seats']))
            tp, tv = T['limit']; sp_, sv = t['limit']
            lim = z3.If(z3.And(tp, sp_), zmin(tv, sv), z3.If(tp, tv, z3.If(sp_, sv, req)))
            need = need + zmin(req, lim)
        self.need = need

# ------------------------------------------------------------------------------------------------ reading executed values
def F(v, sname, fname): return v.fields[STRUCTS[sname].index(fname)]
def secs_of_datetime(ex, v):
    """absolute seconds since day BASE_DAY 00:00 of a DateTime::Point, None for Earliest/Latest"""
    v = ex.strip(v)
    if not isinstance(v, Agg) or v.variant != 1: return None
    tp = v.fields[0]
    return (Z(F(tp, 'TimePoint', 'days').e) - NB.BASE_DAY) * 86400 + Z(F(tp, 'TimePoint', 'seconds').e), Z(F(tp, 'TimePoint', 'seconds').e)
def dur_secs(ex, v):
    v = ex.strip(v)
    if not isinstance(v, Agg) or v.variant != 0: return None
    return Z(F(v.fields[0], 'DurationLength', 'seconds').e)
def dist_m(ex, v):
    v = ex.strip(v)
    if not isinstance(v, Agg) or v.variant != 0: return None
    return Z(v.fields[0].e)
def loc_station(ex, v):
    v = ex.strip(v)
    if not isinstance(v, Agg) or v.variant != 0: return None
    return Z(v.fields[0].fields[0].e)
def idx_of(v): return Z(v.fields[0].e)
def opt_eq(ex, v, present, value):
    p, x = M.opt_parts(ex, v)
    return z3.And(Z(p) == present, z3.Implies(present, Z(x.e) == value)) if x is not None else z3.And(Z(p) == present, z3.Not(present))
def text_of(ex, v):
    v = ex.strip(v)
    return v.text if isinstance(v, StrVal) else None
def map_get(ex, mv, key_pred):
    hits = [c.v for k, c in mv.entries if key_pred(k)]
    return hits

# ------------------------------------------------------------------------------------------------ planning horizon
def span_bounds(I):
    starts = [I.times[d['tok']] for d in I.departures] + [I.times[m['start']] for m in (I.maint or [])]
    ends = [I.times[d['tok']] + I.routes[d['route']]['segs'][d['rs']]['dur'] for d in I.departures] + [I.times[m['end']] for m in (I.maint or [])]
    return starts, ends
def horizon_var(ex, I):
    """fresh P with: P = 86400*k, k = ceil((latest end - earliest start)/86400)  (linear constraints, no div)"""
    starts, ends = span_bounds(I)
    P = z3.Int('horizon'); k = z3.Int('horizon_days'); lo = z3.Int('earliest'); hi = z3.Int('latest')
    ex.inputs['horizon'] = P
    ex.pc_global += [z3.And(*[lo <= s for s in starts]), z3.Or(*[lo == s for s in starts]), z3.And(*[hi >= e for e in ends]), z3.Or(*[hi == e for e in ends]),
                     P == 86400 * k, k >= 0, 86400 * (k - 1) < hi - lo, hi - lo <= 86400 * k]
    VAR_RANGE['horizon'] = (0, 86400 * 4); I.horizon = P
    return P

def job_planning(name, tier, variant, mode='on'):
    """determine_planning_days from MIR, every ordering of the times: result = the span between the earliest start and the latest end, rounded up to whole days"""
    times = {}
    def m_datetime_new(ex, callee, args):
        s = ex.strip(args[0])
        if not isinstance(s, StrVal) or s.text not in times: raise Unsupported('DateTime::new on %r' % (s,))
        return NB.dt_point(NB.BASE_DAY, times[s.text])
    J = JobCtx(name, CRATES, mode=mode, extra_models=[(r'^(rapid_time::)?DateTime::new$', m_datetime_new)]); ex = J.ex
    f = ex.resolve_fn('determine_planning_days'); sh = shape(variant, tier)
    def body():
        ex.pc_global = []; ex.inputs = {}
        I = build_input(ex, sh, tier); times.clear(); times.update(I.times)
        return I, ex.call_fn(f, [Ref(Cell(I.value))])
    for pc, r in J.explore(body, max_paths=20000):
        if isinstance(r, Panic): J.panic(pc, r, clause='loader: the planning horizon is computed without panic'); continue
        I, res = r; J.reached += 1
        got = dur_secs(ex, res)
        starts, ends = span_bounds(I)
        lo = starts[0]; hi = ends[0]
        for s_ in starts[1:]: lo = zmin(lo, s_)
        for e_ in ends[1:]: hi = zmax(hi, e_)
        J.prove(pc, False if got is None else z3.And(got % 86400 == 0, got >= hi - lo, got - 86400 < hi - lo, got >= 0),
                'loader: the planning horizon is the span from the earliest start to the latest end, rounded up to whole days')
        J.sample('determine_planning_days == ceil((latest end - earliest start)/1 day) days on this ordering of the times')
    return J.result()

# ------------------------------------------------------------------------------------------------ the job
def job_loader(name, tier, variant, mode='on'):
    rec = []
    def m_network_new(ex, callee, args): rec.append(list(args)); return Opaque('network')
    times = {}
    def m_datetime_new(ex, callee, args):
        s = ex.strip(ex.deref_val(args[0]) if isinstance(args[0], Ref) else args[0])
        if not isinstance(s, StrVal) or s.text not in times: raise Unsupported('DateTime::new on %r' % (s,))
        return NB.dt_point(NB.BASE_DAY, times[s.text])
    planning = []
    def m_planning(ex, callee, args):
        # assume/guarantee: the horizon is a fresh variable constrained by the relation that job_planning proves of the real
        # determine_planning_days on every path (a 700-leaf ite with div/mod would stall the closing queries)
        return NB.dur(planning[0])
    models = [(r'^Network::new$', m_network_new), (r'^(rapid_time::)?DateTime::new$', m_datetime_new), (r'^determine_planning_days$', m_planning)]
    J = JobCtx(name, CRATES, mode=mode, extra_models=models); ex = J.ex
    # the loader's helper functions are pure: their internal case splits (optional fields, orderings of times, clamps) are merged
    # into ite-terms instead of multiplying the paths of the caller
    ex.merge_patterns = list(ex.merge_patterns) + ['create_config', 'create_vehicle_types', 'create_locations',
                                                   'create_service_trips', 'create_maintenance_slots', 'create_depots']
    create_network = ex.resolve_fn('create_network')
    sh = shape(variant, tier)
    def body():
        ex.pc_global = []; ex.inputs = {}; del rec[:]
        I = build_input(ex, sh, tier); times.clear(); times.update(I.times)
        ji = Ref(Cell(I.value)); del planning[:]
        planning.append(horizon_var(ex, I))
        lr = ex.call('create_locations', [ji]); locations, loc_lookup = lr.fields
        vr = ex.call('create_vehicle_types', [ji]); vtypes, vt_lookup = vr.fields
        cfg = ex.call('create_config', [ji])
        ex.call_fn(create_network, [ji, locations, vtypes, cfg, loc_lookup, vt_lookup])
        return I, list(rec), ex.strip(loc_lookup), ex.strip(vt_lookup)
    for pc, r in J.explore(body, max_paths=20000):
        if isinstance(r, Panic): J.panic(pc, r, clause='loader: a valid instance loads without panic'); continue
        I, calls, ll, vl = r; J.reached += 1
        if len(calls) != 1: J.prove(pc, False, 'loader: exactly one network is built'); continue
        depots, strips, mslots, cfg, locations, vtypes = [ex.strip(a) for a in calls[0]]
        loc_idx = {text_of(ex, k): conc(c.v.fields[0]) for k, c in ll.entries}; type_idx = {text_of(ex, k): conc(c.v.fields[0]) for k, c in vl.entries}
        inj = sorted(loc_idx) == sorted(I.sh['locs']) and len(set(loc_idx.values())) == len(loc_idx) and None not in loc_idx.values() and \
              sorted(type_idx) == sorted(I.sh['types']) and len(set(type_idx.values())) == len(type_idx) and None not in type_idx.values()
        J.prove(pc, inj, 'loader: every location id and every vehicle-type id gets its own index')
        if not inj: continue
        R = Ref_(I, max_distance_value(ex), I.horizon, loc_idx, type_idx)
        def mk(sig, what):
            def f(m, I=I, sig=sig, what=what):
                return dict(signature='loader: ' + sig, what=what, scenario=dict(instance=to_json(I, m), ops=[dict(op='network')]), expect=[expected_obs(I, R, m)], loader=True)
            return f
        # ---- service trips
        conj = []; ntypes = len(I.types)
        got = {}
        for k, c in strips.entries: got[conc(k.fields[0])] = ex.strip(c.v)
        ok_shape = sorted(got) == sorted(type_idx.values())
        for t in sorted(type_idx.values()):
            exp = [x for x in R.trips if x['vt'] == t]
            cells = got[t].cells if ok_shape else []
            if len(cells) != len(exp): ok_shape = False; continue
            for c, x in zip(cells, exp):
                v = ex.strip(c.v); S_ = lambda f: F(v, 'ServiceTrip', f)
                dep = secs_of_datetime(ex, S_('departure')); arr = secs_of_datetime(ex, S_('arrival'))
                o = loc_station(ex, S_('origin')); d = loc_station(ex, S_('destination')); dm = dist_m(ex, S_('distance'))
                if None in (dep, arr, o, d, dm) or text_of(ex, S_('id')) != x['id']: conj.append(False); continue
                conj += [idx_of(S_('vehicle_type')) == x['vt'], o == x['o'], d == x['d'], dep[0] == x['dep'], arr[0] == x['arr'], arr[1] < 86400, dm == x['dist'],
                         Z(S_('passengers').e) == x['pax'], Z(S_('seated').e) == x['seated'], opt_eq(ex, S_('maximal_formation_count'), *x['limit'])]
        J.prove(pc, z_and(ok_shape, *conj), 'loader: one service trip per departure segment with the type, origin, destination, distance, departure, arrival = departure + duration, passengers (0 counted as 1), seated and formation limit of its route segment',
                mk('service trips', 'a loaded service trip differs from its departure segment / route segment'))
        # ---- maintenance slots
        conj = []; ok_shape = len(mslots.cells) == len(R.maint)
        if ok_shape:
            for c, x in zip(mslots.cells, R.maint):
                v = ex.strip(c.v); S_ = lambda f: F(v, 'MaintenanceSlot', f)
                st = secs_of_datetime(ex, S_('start')); en = secs_of_datetime(ex, S_('end')); l = loc_station(ex, S_('location'))
                if None in (st, en, l) or text_of(ex, S_('id')) != x['id']: conj.append(False); continue
                conj += [st[0] == x['start'], en[0] == x['end'], l == x['loc'], Z(S_('track_count').e) == x['tracks']]
        J.prove(pc, z_and(ok_shape, *conj), 'loader: one maintenance slot per listed slot with its location, start, end and track count', mk('maintenance slots', 'a loaded maintenance slot differs from the input'))
        # ---- depots
        conj = []
        if I.depots is not None:
            ok_shape = len(depots.cells) == len(I.depots)
            if ok_shape:
                for i, (c, x) in enumerate(zip(depots.cells, I.depots)):
                    v = ex.strip(c.v); S_ = lambda f: F(v, 'Depot', f)
                    l = loc_station(ex, S_('location')); al = ex.strip(S_('allowed_types'))
                    if l is None or text_of(ex, S_('id')) != x['id'] or conc(S_('idx').fields[0]) != i: conj.append(False); continue      # Network::new requires depot i to carry index i (the overflow depot takes len)
                    conj += [l == R.loc_idx[x['loc']], Z(S_('total_capacity').e) == x['cap']]
                    keys = sorted(conc(k.fields[0]) for k, c2 in al.entries)
                    if keys != sorted(R.type_idx[tid] for tid, cp, cv in x['allowed']): conj.append(False); continue
                    for tid, cp, cv in x['allowed']:
                        e = [c2.v for k, c2 in al.entries if conc(k.fields[0]) == R.type_idx[tid]][0]
                        conj.append(opt_eq(ex, e, cp, cv))
            J.prove(pc, z_and(ok_shape, *conj), 'loader: the given depots with their location, total capacity and per-type capacities (absent types stay absent, null = no own limit)', mk('given depots', 'a loaded depot differs from the input'))
        else:
            ok_shape = len(depots.cells) == len(I.locs); caps = []
            if ok_shape:
                seen = []
                for i, c in enumerate(depots.cells):
                    v = ex.strip(c.v); S_ = lambda f: F(v, 'Depot', f)
                    l = loc_station(ex, S_('location')); al = ex.strip(S_('allowed_types'))
                    if l is None or conc(S_('idx').fields[0]) != i: conj.append(False); continue
                    seen.append(l); caps.append(Z(S_('total_capacity').e))
                    keys = sorted(conc(k.fields[0]) for k, c2 in al.entries)
                    if keys != sorted(type_idx.values()): conj.append(False); continue
                    for k, c2 in al.entries:
                        p, x_ = M.opt_parts(ex, c2.v); conj.append(z3.Not(Z(p)))
                if len(seen) == len(I.locs): conj.append(z3.Distinct(*seen) if len(seen) > 1 else True)
            J.prove(pc, z_and(ok_shape, *conj), 'loader: without a depot list there is one depot per location, open to every type without a per-type limit', mk('default depots', 'default depots differ from one-per-location / all types'))
            J.prove(pc, z_and(ok_shape, *[c >= R.need for c in caps]), 'loader: a default depot is unlimited (it can host every vehicle the covering may need)',
                    mk('default depot capacity', 'a default ("unlimited") depot has less capacity than the number of vehicles the instance may need'))
            J.covers.add('default depots')
        # ---- vehicle types
        conj = []
        vm = ex.strip(F(vtypes, 'VehicleTypes', 'vehicle_types')); ids_sorted = ex.strip(F(vtypes, 'VehicleTypes', 'ids_sorted'))
        ok_shape = len(vm.entries) == len(I.types) and [conc(c.v.fields[0]) for c in ids_sorted.cells] == sorted(type_idx.values())
        if ok_shape:
            for x in I.types:
                i = type_idx[x['id']]
                hit = [c.v for k, c in vm.entries if conc(k.fields[0]) == i]
                if len(hit) != 1: conj.append(False); continue
                v = ex.strip(hit[0]);  v = ex.strip(Ref(v.fields[0])) if isinstance(v, Agg) and v.ty == 'Arc' else v
                S_ = lambda f: F(v, 'VehicleType', f)
                if text_of(ex, S_('id')) != x['id'] or conc(S_('idx').fields[0]) != i: conj.append(False); continue
                conj += [Z(S_('capacity').e) == x['cap'], Z(S_('seats').e) == x['seats'], opt_eq(ex, S_('maximal_formation_count'), *x['limit'])]
        J.prove(pc, z_and(ok_shape, *conj), 'loader: every vehicle type with its id, capacity, seats and formation limit', mk('vehicle types', 'a loaded vehicle type differs from the input'))
        # ---- locations and dead-head matrices
        conj = []
        stn = ex.strip(F(locations, 'Locations', 'stations')); dh = ex.strip(F(locations, 'Locations', 'dead_head_trips'))
        n = len(I.locs); idxs = sorted(loc_idx.values()); byidx = {v: k for k, v in loc_idx.items()}; locinfo = {l['id']: l for l in I.locs}
        ok_shape = sorted(conc(k.fields[0]) for k, c in stn.entries) == idxs and sorted(conc(k.fields[0]) for k, c in dh.entries) == idxs
        if ok_shape:
            for k, c in stn.entries:
                i = conc(k.fields[0]); tv = ex.strip(c.v)
                if text_of(ex, tv.fields[0]) != byidx[i]: conj.append(False); continue
                conj.append(opt_eq(ex, tv.fields[1], *locinfo[byidx[i]]['day_limit']))
            for k, c in dh.entries:
                a = conc(k.fields[0]); inner = ex.strip(c.v)
                if sorted(conc(k2.fields[0]) for k2, c2 in inner.entries) != idxs: conj.append(False); continue
                for k2, c2 in inner.entries:
                    b = conc(k2.fields[0]); t = ex.strip(c2.v)
                    tt = dur_secs(ex, F(t, 'DeadHeadTrip', 'travel_time')); dd = dist_m(ex, F(t, 'DeadHeadTrip', 'distance'))
                    if tt is None or dd is None: conj.append(False); continue
                    conj += [tt == R.tt[(a, b)], dd == R.dd[(a, b)]]
        J.prove(pc, z_and(ok_shape, *conj), 'loader: every location with its id and day limit; dead-head duration and distance of every ordered pair as given by id in the matrices (cut to the planning horizon / the maximal distance)',
                mk('dead-head matrix', 'a dead-head duration or distance is stored for the wrong ordered pair of locations or with the wrong value'))
        # ---- config
        P = I.params
        c_ = cfg; sc = F(c_, 'Config', 'shunting'); mc = F(c_, 'Config', 'maintenance'); cc = F(c_, 'Config', 'costs')
        vals = [dur_secs(ex, F(c_, 'Config', 'day_limit_threshold')), dur_secs(ex, F(sc, 'ShuntingConfig', 'minimal')), dur_secs(ex, F(sc, 'ShuntingConfig', 'dead_head_trip')), dist_m(ex, F(mc, 'MaintenanceConfig', 'maximal_distance'))]
        if None in vals: J.prove(pc, False, 'loader: the parameters as given, absent ones defaulting to false / 0')
        else:
            conj = [Z(F(c_, 'Config', 'forbid_dead_head_trip').e) == z3.If(P['forbid'][0], P['forbid'][1], False), vals[0] == z3.If(P['dlt'][0], P['dlt'][1], 0), vals[1] == P['shmin'], vals[2] == P['shdht'],
                    vals[3] == z3.If(P['maxdist'][0], P['maxdist'][1], 0), Z(F(cc, 'CostsConfig', 'staff').e) == P['costs']['staff'], Z(F(cc, 'CostsConfig', 'service_trip').e) == P['costs']['service_trip'],
                    Z(F(cc, 'CostsConfig', 'maintenance').e) == z3.If(P['cost_maint_present'], P['costs']['maintenance'], 0), Z(F(cc, 'CostsConfig', 'dead_head_trip').e) == P['costs']['dead_head_trip'],
                    Z(F(cc, 'CostsConfig', 'idle').e) == P['costs']['idle']]
            J.prove(pc, z_and(*conj), 'loader: the parameters as given, absent ones defaulting to false / 0', mk('parameters', 'a loaded parameter differs from the input'))
        if J.sat(pc, z3.Or(*[d['pax'] == 0 for d in I.departures])) is not None: J.covers.add('zero passengers')
        if J.sat(pc, z3.Or(*[I.dur[k] > R.planning for k in I.dur])) is not None: J.covers.add('dead-head beyond horizon')
        J.witness(pc, lambda m, I=I, R=R: dict(scenario=dict(instance=to_json(I, m), ops=[dict(op='network')]), symbolic=[expected_obs(I, R, m)], loader=True))
        J.sample('loader(%s): service trips, slots, depots, types, dead-head matrix, parameters == reference on this path' % variant)
    return J.result()

_MAXD = {}
def max_distance_value(ex):
    """MAX_DISTANCE read from the source (base_types.rs), not hard-coded"""
    if 'v' not in _MAXD:
        import re, os
        from .. import build
        src = open(os.path.join(build.REPO, 'model/src/base_types.rs')).read()
        m = re.search(r'pub const MAX_DISTANCE:\s*\w+\s*=\s*([0-9_]+)', src)
        if not m: raise Unsupported('MAX_DISTANCE not found')
        _MAXD['v'] = int(m.group(1).replace('_', ''))
    return _MAXD['v']

# ------------------------------------------------------------------------------------------------ expected native observation (subset of the `network` op)
def expected_obs(I, R, m):
    def val(e):
        if isinstance(e, (int, bool)): return e
        v = m.eval(e, model_completion=True)
        if z3.is_int_value(v): return v.as_long()
        return z3.is_true(v)
    def iso(sec): return '0400-01-%02dT%02d:%02d:%02d' % (1 + sec // 86400, (sec % 86400) // 3600, (sec % 3600) // 60, sec % 60)
    inv = {v: k for k, v in R.loc_idx.items()}; locs = {i: inv[i] for i in inv}; tinv = {v: k for k, v in R.type_idx.items()}
    nodes = {}
    for t in R.trips:
        T = [x for x in I.types if x['id'] == tinv[t['vt']]][0]; tp, tv = T['limit']; sp_, sv = t['limit']
        lims = ([val(tv)] if val(tp) else []) + ([val(sv)] if val(sp_) else [])
        nodes[t['id']] = dict(start=iso(val(t['dep'])), end=iso(val(t['arr'])), start_location=locs[t['o']], end_location=locs[t['d']], distance=val(t['dist']),
                              type=str(t['vt']), passengers=val(t['pax']), seated=val(t['seated']), limit=min(lims) if lims else None)
    for x in R.maint:
        nodes[x['id']] = dict(start=iso(val(x['start'])), end=iso(val(x['end'])), start_location=locs[x['loc']], end_location=locs[x['loc']], tracks=val(x['tracks']))
    out = dict(nodes=nodes, need=val(R.need))
    if I.depots is not None:
        out['depots'] = {d['id']: dict(total=val(d['cap']), location=d['loc'],
                                       per_type=[([min(val(cv), val(d['cap'])) if val(cp) else val(d['cap']) for tid, cp, cv in d['allowed'] if tid == t['id']] or [0])[0] for t in I.types]) for d in I.depots}
    else: out['default_depot_locations'] = sorted(locs.values())
    out['travel'] = {'%s>%s' % (locs[a], locs[b]): [val(R.tt[(a, b)]), val(R.dd[(a, b)])] for (a, b) in R.tt}
    return out

def native_obs(obs, exp):
    """project the native `network` observation onto what expected_obs describes"""
    nw = obs[0]
    if 'panic' in nw: return dict(panic=nw['panic'])
    nodes = {}
    for n in nw['nodes']:
        e = exp['nodes'].get(n['id'])
        if e is None: continue
        nodes[n['id']] = {k: n.get(k) for k in e}
    out = dict(nodes=nodes, need=exp['need'])
    real = [d for d in nw['depots'] if not d['overflow']]
    if 'depots' in exp: out['depots'] = {d['id']: dict(total=d['total'], location=d['location'], per_type=d['per_type']) for d in real}
    else: out['default_depot_locations'] = sorted(d['location'] for d in real)
    out['travel'] = nw.get('travel', {})
    return out

def confirm(c):
    sc = c['scenario']; exp = c['expect'][0]; out = []
    for prof in ('dev', 'release'):
        obs = replay.run(sc, prof)
        if isinstance(obs, list) and obs and isinstance(obs[0], dict) and 'timeout' in obs[0]: return False, 'native replay timed out'
        got = native_obs(obs, exp)
        if c['clause'].startswith('loader: a default depot is unlimited'):
            real = [d for d in obs[0]['depots'] if not d['overflow']]
            bad = any(d['total'] < exp['need'] for d in real)
            out.append('%s: default depot capacities %s, vehicles the covering may need %s' % (prof, [d['total'] for d in real], exp['need']))
        else:
            bad = got != exp
            diff = [k for k in exp if got.get(k) != exp[k]]
            out.append('%s: native differs from the input in %s: native=%s expected=%s' % (prof, diff, json.dumps({k: got.get(k) for k in diff})[:400], json.dumps({k: exp[k] for k in diff})[:400]))
        if not bad: return False, '; '.join(out)
    return True, '; '.join(out)

def validate(w):
    obs = replay.run(w['scenario'], 'dev'); exp = w['symbolic'][0]
    got = native_obs(obs, exp)
    return got == exp, 'native %s / symbolic %s' % (json.dumps(got)[:300], json.dumps(exp)[:300])
