"""Reference model for rotation cycles: recomputation of cycle counters and totals from the tours."""
import z3
from . import tour as TS
INFD = 10_000_000

def depot_distance(net, end_depot, start_depot):
    d = TS.dh_distance(net, end_depot, start_depot)
    return INFD if d is TS.INF else d

def cycle_counter(net, cycle, tours):
    """cycle: list of vehicle keys; tours: key -> list of node numbers"""
    if not cycle: return z3.IntVal(0)
    c = z3.IntVal(0)
    for v in cycle: c = c + TS.maintenance_counter(net, tours[v])
    n = len(cycle)
    for i in range(n):
        a = tours[cycle[i]]; b = tours[cycle[(i + 1) % n]]
        c = c + depot_distance(net, a[-1], b[0])
    return c

def totals(net, cycles, tours):
    cs = [cycle_counter(net, c, tours) for c in cycles]
    viol = sum((z3.If(x > 0, x, 0) for x in cs), z3.IntVal(0))
    return cs, viol, sum(cs, z3.IntVal(0))
