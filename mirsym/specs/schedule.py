"""Reference model for schedules: structural invariants and from-scratch recomputation of every cached figure,
from the tours / formations / cycles read off a Schedule value (independent of the repository's own
verify_consistency and compute_* functions)."""
import z3
from . import tour as TS, transition as XS
from ..core import z_and, z_or, Z

def limit_of(net, n):
    """(present: z3 Bool, value: z3 Int) formation limit of a service node = min of the limits that are present"""
    I = net.info[n]; tp, tv = net.types[I['vt']]['limit']; sp, sv = I['limit']
    return z3.Or(tp, sp), z3.If(z3.And(tp, sp), z3.If(tv < sv, tv, sv), z3.If(tp, tv, sv))

def unserved(net, formations, vtype):
    """(capacity shortfall, seat shortfall) summed over all service nodes; formations: node -> [vehicle keys]"""
    a = z3.IntVal(0); b = z3.IntVal(0)
    for n in net.trips:
        cap = sum(net.types[vtype[v]]['cap'] for v in formations.get(n, []) if v in vtype)
        seats = sum(net.types[vtype[v]]['seats'] for v in formations.get(n, []) if v in vtype)
        I = net.info[n]
        a = a + z3.If(I['pax'] > cap, I['pax'] - cap, 0); b = b + z3.If(I['seated'] > seats, I['seated'] - seats, 0)
    return a, b

def invariants(net, st):
    """list of (clause, formula) over a schedule state read by schedops.read_schedule"""
    out = []
    V = st['vehicles']; T = st['tours']; D = st['dummies']; F = st['formations']
    out.append(('vehicle set = tour set = sorted listing', set(V) == set(T) and sorted(V) == sorted(v for vs in st['sorted'].values() for v in vs)))
    out.append(('vehicle listing sorted per type and matches the types', all(vs == sorted(vs) and all(V.get(v) == t for v in vs) for t, vs in st['sorted'].items())))
    out.append(('dummy listing sorted and matches the dummy tours', st['dummy_sorted'] == sorted(D) and len(set(st['dummy_sorted'])) == len(st['dummy_sorted'])))
    # tours: structure, connectivity, type compatibility
    for v, nodes in T.items():
        s, conn = TS.valid_tour(net, nodes)
        out.append(('every tour is depot .. depot with activities in between', s))
        out.append(('consecutive tour nodes are connectable', conn))
        out.append(('a vehicle only serves trips of its own type', all(net.info[n]['kind'] != 'Service' or net.info[n]['vt'] == V[v] for n in nodes)))
        out.append(('tour is not a dummy tour', not st['tour_dummy_flag'][v]))
    for d, nodes in D.items():
        out.append(('dummy tours contain service trips only', len(nodes) >= 1 and all(net.info[n]['kind'] == 'Service' for n in nodes)))
    # formations <-> tours
    ok = True
    for n in list(net.trips) + list(net.maint):
        f = F.get(n)
        if f is None: ok = False; break
        if len(set(f)) != len(f): ok = False
        if set(f) != set(v for v, nodes in T.items() if n in nodes): ok = False
    out.append(('formation of a node = exactly the vehicles whose tour contains it, none twice', ok))
    out.append(('every vehicle covers at least one activity', all(any(net.info[n]['kind'] in ('Service', 'Maintenance') for n in nodes) for nodes in T.values())))
    # limits
    for n in net.trips:
        p, val = limit_of(net, n); k = len(F.get(n, []))
        out.append(('formation limit respected (min of type and segment limit)', z3.Implies(p, k <= val) if k > 0 else True))
    for n in net.maint:
        k = len(F.get(n, []))
        out.append(('maintenance slot hosts at most track-count vehicles', (k <= net.info[n]['tracks']) if k > 0 else True))
    spawned = {}
    for v, nodes in T.items(): spawned.setdefault((net.info[nodes[0]]['depot'], V[v]), []).append(v)
    for d in net.depots:
        if d['overflow']: continue
        tot = 0
        for t in range(len(net.types)):
            k = len(spawned.get((d['i'], t), [])); tot += k
            a = d['allowed'][t]
            if k > 0:
                out.append(('per-type depot capacity respected (unlisted types never start there)', False if a[0] == 'absent' else (k <= (d['cap'] if a[0] == 'none' else z3.If(a[1] < d['cap'], a[1], d['cap'])))))
        if tot > 0: out.append(('total depot capacity respected', tot <= d['cap']))
    # depot usage bookkeeping
    exp_sp = {}; exp_de = {}
    for v, nodes in T.items():
        exp_sp.setdefault((net.info[nodes[0]]['depot'], V[v]), set()).add(v); exp_de.setdefault((net.info[nodes[-1]]['depot'], V[v]), set()).add(v)
    du = st['depot_usage']
    if du is None:
        # native observation: only the counts and balances are observable through the public API
        okd = all(c['spawned'] == len(exp_sp.get(k, ())) and c['balance'] == len(exp_sp.get(k, ())) - len(exp_de.get(k, ())) for k, c in st['depot_counts'].items())
    else: okd = all(du.get(k, (set(), set()))[0] == s for k, s in exp_sp.items()) and all(du.get(k, (set(), set()))[1] == s for k, s in exp_de.items()) \
        and all(sp == exp_sp.get(k, set()) and de == exp_de.get(k, set()) for k, (sp, de) in du.items()) and st['depot_usage_nodup']
    out.append(('per-depot spawn/despawn sets = vehicles starting/ending there', okd))
    # rotation cycles
    for t, tr in st['transitions'].items():
        members = [v for c in tr['cycles'] for v in c]; mine = sorted(v for v in V if V[v] == t)
        part = sorted(members) == mine and len(set(members)) == len(members)
        out.append(('every real vehicle is in exactly one rotation cycle of its type', part))
        if part:
            cs, viol, tot = XS.totals(net, tr['cycles'], T)
            out.append(('cycle counters = recomputation', z_and(*[Z(a) == b for a, b in zip(tr['counters'], cs)])))
            out.append(('transition totals = recomputation', z_and(Z(tr['violation']) == viol, Z(tr['total']) == tot)))
            if tr.get('lookup') is not None: out.append(('cycle lookup / empty-cycle list match the cycles', tr['lookup'] == {v: i for i, c in enumerate(tr['cycles']) for v in c} and sorted(tr['empty']) == [i for i, c in enumerate(tr['cycles']) if not c]))
    return out

def aggregates(net, st):
    """list of (clause, formula): cached schedule-level figures equal recomputation"""
    out = []
    V = st['vehicles']; T = st['tours']
    costs = z3.IntVal(len(net.trips) * net.costs['staff'])
    for v, nodes in T.items(): costs = costs + TS.aggregates(net, nodes)['costs']
    out.append(('schedule costs = sum of recomputed tour costs + staff term', Z(st['costs']) == costs))
    a, b = unserved(net, st['formations'], V)
    out.append(('unserved passengers = recomputation from the formations', z_and(Z(st['unserved'][0]) == a, Z(st['unserved'][1]) == b)))
    viol = z3.IntVal(0); ok = True
    for t, tr in st['transitions'].items():
        members = [v for c in tr['cycles'] for v in c]
        if sorted(members) != sorted(v for v in V if V[v] == t) or len(set(members)) != len(members): ok = False; break
        viol = viol + XS.totals(net, tr['cycles'], T)[1]
    out.append(('maintenance violation = sum over types of recomputed cycle violations', (Z(st['maintenance_violation']) == viol) if ok else False))
    return out
