"""Reference model for tours (independent of the MIR): reachability-based insert/remove semantics and
from-scratch recomputation of the cached aggregates, as z3 terms over the attributes of a netbuild.Net."""
import z3
from .. import netbuild as NB

INF = 'inf'

def reach(net, a, b): return NB.spec_can_reach(net, a, b)

def is_depot(net, n): return net.info[n]['kind'] in ('StartDepot', 'EndDepot')
def nowhere(net, n): return is_depot(net, n) and net.info[n]['overflow']
def eloc(net, n): I = net.info[n]; return I['loc'] if is_depot(net, n) else I['eloc']
def sloc(net, n): I = net.info[n]; return I['loc'] if is_depot(net, n) else I['sloc']

def dh_distance(net, a, b):
    """Distance between consecutive nodes: INF if a Nowhere location is involved, else a z3 Int"""
    if nowhere(net, a) or nowhere(net, b): return INF
    return NB.spec_distance(net, eloc(net, a), sloc(net, b))
def dh_time(net, a, b):
    if nowhere(net, a) or nowhere(net, b): return INF
    return NB.spec_travel_time(net, eloc(net, a), sloc(net, b))
def idle_time(net, a, b):
    if net.info[a]['kind'] == 'StartDepot' or net.info[b]['kind'] == 'EndDepot': return z3.IntVal(0)
    t = dh_time(net, a, b)
    if t is INF: return z3.IntVal(0)      # cannot happen between two activities
    s = net.info[a]['et'] + t; e = net.info[b]['st']
    return z3.If(s <= e, e - s, 0)
def duration(net, n): return z3.IntVal(0) if is_depot(net, n) else net.info[n]['dur']
def distance(net, n): return net.info[n]['dist'] if net.info[n]['kind'] == 'Service' else z3.IntVal(0)

def aggregates(net, nodes):
    """from-scratch values of a tour's cached figures"""
    c = net.costs; pd = net.planning_days
    useful = sum((duration(net, n) for n in nodes), z3.IntVal(0))
    service = sum((distance(net, n) for n in nodes), z3.IntVal(0))
    dh = z3.IntVal(0)
    for a, b in zip(nodes, nodes[1:]):
        d = dh_distance(net, a, b)
        if d is INF: dh = INF; break
        dh = dh + d
    costs = z3.IntVal(0)
    for n in nodes:
        k = net.info[n]['kind']
        if k == 'Service': costs = costs + net.info[n]['dur'] * c['service']
        elif k == 'Maintenance': costs = costs + net.info[n]['dur'] * c['maint']
    for a, b in zip(nodes, nodes[1:]):
        t = dh_time(net, a, b)
        costs = costs + (pd if t is INF else t) * c['dh'] + idle_time(net, a, b) * c['idle']
    visits = any(net.info[n]['kind'] == 'Maintenance' for n in nodes)
    return dict(useful_duration=useful, service_distance=service, dead_head_distance=dh, costs=costs, visits_maintenance=visits)

def maintenance_counter(net, nodes):
    ag = aggregates(net, nodes)
    INFD = 10_000_000
    total = INFD if ag['dead_head_distance'] is INF else ag['service_distance'] + ag['dead_head_distance']
    return total - (net.maxdist if ag['visits_maintenance'] else 0)

def valid_tour(net, nodes):
    """structural validity (python bool) and connectivity (z3 Bool)"""
    k = [net.info[n]['kind'] for n in nodes]
    struct = len(nodes) >= 3 and k[0] == 'StartDepot' and k[-1] == 'EndDepot' and all(x in ('Service', 'Maintenance') for x in k[1:-1])
    conn = z3.And(*[reach(net, a, b) for a, b in zip(nodes, nodes[1:])]) if len(nodes) > 1 else z3.BoolVal(True)
    return struct, conn

def insert_spec(net, T, P, s, e, dummy):
    """z3 Bool: (s, e) are the prefix length / suffix start demanded by the statement for inserting P into T.
    P is the path after dropping its depots when the tour is a dummy tour."""
    pf, pl = P[0], P[-1]; n = len(T); conj = []
    if is_depot(net, pf): conj.append(z3.BoolVal(s == 0))
    else:
        if s > 0: conj.append(reach(net, T[s-1], pf))
        for k in range(s + 1, n + 1): conj.append(z3.Not(reach(net, T[k-1], pf)))
    if is_depot(net, pl): conj.append(z3.BoolVal(e == n))
    else:
        if e < n: conj.append(reach(net, pl, T[e]))
        for j in range(0, e): conj.append(z3.Not(reach(net, pl, T[j])))
    return z3.And(*conj) if conj else z3.BoolVal(True)

def insert_expected(net, T, P, dummy, val):
    """concrete expectation under a model (val: term -> python value): (new nodes, removed nodes)"""
    if dummy:
        if is_depot(net, P[0]): P = P[1:]
        if is_depot(net, P[-1]): P = P[:-1]
    pf, pl = P[0], P[-1]; n = len(T)
    if is_depot(net, pf): s = 0
    else: s = max([k for k in range(1, n + 1) if val(reach(net, T[k-1], pf)) is True] or [0])
    if is_depot(net, pl): e = n
    else: e = min([j for j in range(n) if val(reach(net, pl, T[j])) is True] or [n])
    return T[:s] + P + T[max(s, e):], T[s:e]

def remove_spec(net, T, i, j, dummy):
    """(refused: z3 Bool, new nodes or None, removed nodes) for removing T[i..=j]"""
    n = len(T); refused = []
    if not dummy and i == 0 and j <= n - 3: refused.append(z3.BoolVal(True))      # would strand: start depot without all non-depots
    if not dummy and j == n - 1 and i >= 2: refused.append(z3.BoolVal(True))
    if i > j: refused.append(z3.BoolVal(True))
    if i > 0 and j < n - 1: refused.append(z3.Not(reach(net, T[i-1], T[j+1])))
    rest = T[:i] + T[j+1:]
    if not rest or (not dummy and len(rest) <= 2): rest = None
    return (z3.Or(*refused) if refused else z3.BoolVal(False)), rest, T[i:j+1]
